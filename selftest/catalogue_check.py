"""Run every catalogue entry a few times per context under the step budget and
report how it behaves (ok / raises / budget), so domains can be tuned.
Usage: catalogue_check.py [samples]"""
import sys, os, random, time, json
sys.path.insert(0, os.path.dirname(os.path.dirname(os.path.abspath(__file__))))
from simkit import env
env.bootstrap()
from simkit import proc, codec
from simkit.world import World
from ops import catalogue
from concurrent.futures import ProcessPoolExecutor
import multiprocessing as mp_

def one(args):
    key, ctx, i, prec = args
    e = catalogue.BY_KEY[key]
    rng = random.Random('%s/%s/%d' % (key, ctx, i))
    step = e.gen(rng, actor=ctx)
    step['id'] = 1
    def child():
        w = World(budget=400000)
        if ctx != 'fp':
            w.actors[ctx].prec = prec
        t = time.time()
        rec, res = w.exec_leaf(step)
        rec['wall'] = time.time() - t
        rec['res'] = codec.short(codec.encode(res), 80) if rec['status'] == 'ok' else None
        return rec
    st, rec = proc.call_in_child(child, timeout=60)
    if st != 'ok':
        return (key, ctx, prec, {'status': st, 'exc': rec, 'starts': 0, 'wall': 60})
    return (key, ctx, prec, rec)

if __name__ == '__main__':
    n = int(sys.argv[1]) if len(sys.argv) > 1 else 4
    only = sys.argv[2] if len(sys.argv) > 2 else None
    tasks = []
    for e in catalogue.CAT:
        if only and only not in e.key:
            continue
        for ctx in e.ctxs:
            for i in range(n):
                tasks.append((e.key, ctx, i, min(e.maxprec, [53, 200, 31, 400][i % 4])))
    with ProcessPoolExecutor(16, mp_context=mp_.get_context('fork')) as ex:
        res = list(ex.map(one, tasks, chunksize=4))
    agg = {}
    for key, ctx, prec, rec in res:
        a = agg.setdefault((key, ctx), {'ok': 0, 'raised': 0, 'other': 0, 'starts': 0, 'wall': 0.0, 'exc': set(), 'res': None})
        s = rec['status']
        if s == 'ok':
            a['ok'] += 1; a['res'] = rec.get('res')
        elif s == 'raised':
            a['raised'] += 1; a['exc'].add(str(rec.get('exc'))[:110])
        else:
            a['other'] += 1; a['exc'].add(s + ':' + str(rec.get('exc'))[:300])
        a['starts'] = max(a['starts'], rec.get('starts', 0)); a['wall'] = max(a['wall'], rec.get('wall', 0))
    for (key, ctx), a in sorted(agg.items()):
        flag = '' if a['ok'] >= (a['ok'] + a['raised'] + a['other']) * 0.6 else '  <<<<'
        print('%-22s %-3s ok=%d raised=%d other=%d maxstarts=%d maxwall=%.2f %s%s' % (key, ctx, a['ok'], a['raised'], a['other'], a['starts'], a['wall'], a['res'] if not a['exc'] else sorted(a['exc'])[:2], flag))
