"""Determinism self-test (DESIGN.md 2.7).

For a property machine, executes the same N seeds
  (a) in-process isolation, 16 workers,
  (b) in-process isolation, 3 workers (different run->worker histories),
  (c) fork isolation (every run in a child forked from a pristine process),
  (d) in-process isolation under another PYTHONHASHSEED in fresh interpreters,
and requires the per-run event-log digests to be identical everywhere.
Any divergence is a harness bug: exit 2 (HARNESS-ERROR).

usage: determinism.py <PROP> [N] [--tier quick]
"""
import sys, os, json, subprocess, tempfile

HERE = os.path.dirname(os.path.dirname(os.path.abspath(__file__)))

def run(prop, n, env_extra, workers, out, first=0):
    env = dict(os.environ)
    env.pop('PYTHONHASHSEED', None)
    env.update(env_extra)
    cmd = ['/venv/bin/python', '-u', os.path.join(HERE, 'check.py'), prop, '--runs', str(n), '--workers', str(workers),
           '--no-evidence', '--no-minimise', '--dump-digests', out, '--wall', '3600', '--first', str(first)]
    p = subprocess.run(cmd, env=env, stdout=subprocess.PIPE, stderr=subprocess.STDOUT, text=True)
    return p.returncode, p.stdout

def main():
    prop = sys.argv[1]
    n = int(sys.argv[2]) if len(sys.argv) > 2 else 200
    tmp = tempfile.mkdtemp(prefix='verif-det-')
    configs = [
        ('inproc-w16', {'VERIF_ISOLATION': 'inproc'}, 16),
        ('inproc-w3', {'VERIF_ISOLATION': 'inproc'}, 3),
        ('fork-w6', {'VERIF_ISOLATION': 'fork'}, 6),
        ('inproc-w16-hashseed12345', {'VERIF_ISOLATION': 'inproc', 'VERIF_HASHSEED': '12345'}, 16),
    ]
    digs = {}
    for name, e, w in configs:
        out = os.path.join(tmp, name + '.json')
        rc, txt = run(prop, n, e, w, out)
        if not os.path.exists(out):
            print('HARNESS-ERROR: %s produced no digests\n%s' % (name, txt[-2000:]))
            return 2
        digs[name] = json.load(open(out))
        print('%s: %d digests (exit %d)' % (name, len(digs[name]), rc))
    base_name = configs[0][0]
    base = digs[base_name]
    bad = 0
    for name in digs:
        if name == base_name:
            continue
        d = digs[name]
        keys = sorted(set(base) | set(d), key=int)
        diff = [k for k in keys if base.get(k) != d.get(k)]
        if diff:
            bad += len(diff)
            print('DIVERGENCE %s vs %s: %d of %d runs differ; first indices %s' % (base_name, name, len(diff), len(keys), diff[:10]))
    for f in os.listdir(tmp):
        os.unlink(os.path.join(tmp, f))
    os.rmdir(tmp)
    if bad:
        print('HARNESS-ERROR: nondeterminism detected')
        return 2
    print('determinism OK: %s, %d seeds x %d configurations, all digests identical' % (prop, n, len(configs)))
    return 0

if __name__ == '__main__':
    sys.exit(main())
