"""Sensitivity self-test (DESIGN.md 2.12): every kept seeded change must be caught.

For each /verif/seeded/<id>/ (patch.diff + meta.json) a scratch copy of /repo's
working tree is made under $TMPDIR, the patch is applied there, the property's
check is run against it (VERIF_REPO=<scratch>) and must exit 1 with a
VIOLATION line; the scratch copy is removed straight afterwards.  /repo itself
is never touched.

usage: mutants.py [--tier quick] [--seed N] [id ...]
"""
import sys, os, json, shutil, subprocess, tempfile, time

HERE = os.path.dirname(os.path.dirname(os.path.abspath(__file__)))

def main():
    args = [a for a in sys.argv[1:] if not a.startswith('--')]
    tier = 'quick'
    if '--tier' in sys.argv:
        tier = sys.argv[sys.argv.index('--tier') + 1]
        args = [a for a in args if a != tier]
    seed = None               # --seed N: batch seed other than each machine's default (out-of-sample detection)
    if '--seed' in sys.argv:
        seed = sys.argv[sys.argv.index('--seed') + 1]
        args = [a for a in args if a != seed]
    sdir = os.path.join(HERE, 'seeded')
    ids = args or sorted(d for d in os.listdir(sdir) if os.path.exists(os.path.join(sdir, d, 'patch.diff')))
    results = []
    # one snapshot of /repo's working tree at start, so that later changes to /repo
    # (another seeded change being tried there) cannot leak into a mutant
    base = tempfile.mkdtemp(prefix='verif-mutant-base-')
    shutil.copytree(os.environ.get('VERIF_REPO', '/repo'), os.path.join(base, 'repo'),
                    ignore=shutil.ignore_patterns('.git', '__pycache__', '*.pyc', 'doc', 'demo'))
    import atexit
    atexit.register(shutil.rmtree, base, True)
    for mid in ids:
        meta = json.load(open(os.path.join(sdir, mid, 'meta.json')))
        prop = meta['property']
        if meta.get('neutralised_by'):
            # a later repair of /repo made this change harmless (its demo passes on the changed tree): kept for the record
            print('%-6s %-4s %-18s %s' % (mid, prop, 'NEUTRALISED', 'no longer breaks the property since ' + meta['neutralised_by']))
            continue
        scratch = tempfile.mkdtemp(prefix='verif-mutant-%s-' % mid)
        try:
            dst = os.path.join(scratch, 'repo')
            shutil.copytree(os.path.join(base, 'repo'), dst)
            p = subprocess.run(['patch', '-p1', '-s', '-i', os.path.join(sdir, mid, 'patch.diff')], cwd=dst,
                               stdout=subprocess.PIPE, stderr=subprocess.STDOUT, text=True)
            if p.returncode != 0:
                results.append((mid, prop, 'PATCH-FAILED', p.stdout[-300:]))
                continue
            env = dict(os.environ, VERIF_REPO=dst)
            env.pop('PYTHONHASHSEED', None)
            if seed is not None:
                env['VERIF_SEED'] = seed
            t0 = time.time()
            c = subprocess.run([os.path.join(HERE, 'check'), prop, '--tier', tier, '--no-evidence', '--no-minimise'], env=env,
                               stdout=subprocess.PIPE, stderr=subprocess.STDOUT, text=True, cwd=HERE)
            viol = [l for l in c.stdout.splitlines() if l.startswith('VIOLATION')]
            classes = [l.strip()[:110] for l in c.stdout.splitlines() if l.startswith('  check=') or l.startswith('  (regression')]
            ok = c.returncode == 1 and bool(viol)
            results.append((mid, prop, 'CAUGHT' if ok else 'MISSED (exit %d)' % c.returncode, '%d classes, %.0fs; first: %s' % (
                len(viol), time.time() - t0, classes[0] if classes else '-')))
        finally:
            shutil.rmtree(scratch, ignore_errors=True)
        print('%-6s %-4s %-18s %s' % results[-1])
        sys.stdout.flush()
    missed = [r for r in results if not r[2].startswith('CAUGHT')]
    print('%d seeded changes, %d caught, %d missed' % (len(results), len(results) - len(missed), len(missed)))
    return 1 if missed else 0

if __name__ == '__main__':
    sys.exit(main())
