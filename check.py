import sys, os
sys.path.insert(0, os.path.dirname(os.path.abspath(__file__)))
from simkit import env
env.bootstrap()
import importlib

def main():
    if len(sys.argv) < 2:
        print('usage: check <property> [--tier quick|thorough] [--replay file]')
        return 2
    prop = sys.argv[1].upper()
    try:
        mod = importlib.import_module('machines.' + prop.lower())
    except ImportError as e:
        print('HARNESS-ERROR: no machine for %s (%s)' % (prop, e))
        return 2
    from simkit import driver
    return driver.main(mod.Machine(), sys.argv[2:])

if __name__ == '__main__':
    sys.exit(main())
