"""Reference model of working precision: M[actor] = (prec, dps).

An independent transcription of the documented conversion formulas; it never
calls mpmath.  Changed only by explicit assignment steps and by entering or
leaving manager blocks.
"""
import math
from fractions import Fraction

LOG2_10 = 3.3219280948873626

class Invalid(Exception):
    pass

def to_int(v):
    """int(v) as Python would compute it for the value a spec denotes; raises
    Invalid where int() raises."""
    if isinstance(v, bool):
        return int(v)
    if isinstance(v, int):
        return v
    if isinstance(v, float):
        if v != v or v in (float('inf'), float('-inf')):
            raise Invalid
        return int(v)
    if isinstance(v, Fraction):
        return int(v)      # truncation toward zero, as mpf.__int__
    if isinstance(v, str):
        try:
            return int(v)
        except ValueError:
            raise Invalid
    raise Invalid

def spec_value(spec):
    """Python value of an argument spec for the purpose of the model."""
    t = spec['t']
    if t == 'int':
        return int(spec['v'])
    if t == 'bool':
        return bool(spec['v'])
    if t == 'float':
        return float.fromhex(spec['v'])
    if t == 'str':
        return spec['v']
    if t == 'mpf':
        sign, hexman, exp = spec['v'][:3]
        man = int(hexman, 16)
        if not man and len(spec['v']) > 3 and exp:
            return float('nan') if exp == -123 else (float('inf') if exp == -456 else float('-inf'))
        f = Fraction(man) * (Fraction(2) ** exp)
        return -f if sign else f
    if t == 'none':
        return None
    if t == 'attr' and spec['v'] == 'inf':
        return float('inf')
    raise Invalid

def dps_to_prec(n):
    return max(1, int(round((n + 1) * LOG2_10)))

def prec_to_dps(n):
    return max(1, int(round(n / LOG2_10) - 1))

class PrecModel(object):
    def __init__(self):
        self.m = {'mp': (53, 15), 'iv': (53, 15), 'fp': (53, 15)}
        self.last = {}

    def get(self, actor):
        return self.m[actor]

    def clone(self, new, parent):
        # clone() copies the parent's *prec* (a.prec = ctx.prec)
        p = self.m[parent][0]
        self.m[new] = (p, prec_to_dps(p))

    def set_prec(self, actor, v):
        """v: python value; raises Invalid if the assignment must raise."""
        if actor == 'fp':
            return
        n = to_int(v)
        try:
            new = (max(1, n), prec_to_dps(n))
        except OverflowError:       # a precision too large for the conversion formula: the assignment raises
            raise Invalid
        self.m[actor] = new
        self.last[actor] = ('prec', max(1, n))

    def set_dps(self, actor, v):
        if actor == 'fp':
            return
        n = to_int(v)
        try:
            new = (dps_to_prec(n), max(1, n))
        except OverflowError:
            raise Invalid
        self.m[actor] = new
        self.last[actor] = ('dps', max(1, n))

    def default(self, actor):
        if actor == 'fp':
            return
        self.m[actor] = (53, 15)

    def snapshot(self):
        return dict(self.m)

    def restore(self, actor, saved):
        self.m[actor] = saved
