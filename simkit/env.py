"""Process bootstrap: pinned hash seed, working-tree import, pristine mpmath.

Every entry point calls bootstrap() before anything else.  The driver
re-executes itself with PYTHONHASHSEED pinned (0 unless VERIF_HASHSEED says
otherwise, which only the determinism self-test uses) so that string hashing
is not a hidden source of nondeterminism, and imports mpmath from VERIF_REPO
(default /repo, the current working tree) so that every check rebuilds from
the tree as it stands.
"""
import os, sys

REPO = os.environ.get('VERIF_REPO', '/repo')
VERIF = os.path.dirname(os.path.dirname(os.path.abspath(__file__)))

def bootstrap():
    want = os.environ.get('VERIF_HASHSEED', '0')
    if os.environ.get('PYTHONHASHSEED') != want or os.environ.get('PYTHONDONTWRITEBYTECODE') != '1':
        env = dict(os.environ)
        env['PYTHONHASHSEED'] = want
        env['PYTHONDONTWRITEBYTECODE'] = '1'
        env['MPMATH_NOGMPY'] = '1'
        os.execve(sys.executable, [sys.executable] + sys.argv, env)
    sys.dont_write_bytecode = True
    if VERIF not in sys.path:
        sys.path.insert(0, VERIF)
    repo = os.path.abspath(REPO)
    sys.path.insert(0, repo)
    import mpmath
    got = os.path.dirname(os.path.dirname(os.path.abspath(mpmath.__file__)))
    if got != repo:
        sys.stderr.write('HARNESS-ERROR: mpmath imported from %s, wanted %s\n' % (got, repo))
        sys.exit(2)
    from simkit import pristine
    pristine.snapshot()       # imports every submodule; records the pristine state
    # The cyclic garbage collector is a scheduler the simulation does not own: when it runs, finalisers
    # (generators suspended inside `try/finally`, which restore ctx.prec and call library functions) execute
    # library code in the middle of whatever step happens to be running.  Automatic collection is switched
    # off for the whole process (workers and forked children inherit it); World.guarded collects explicitly
    # before every monitored region, so finalisers run at step boundaries, the same ones in every mode.
    import gc
    gc.collect()
    if os.environ.get('VERIF_GC_FREEZE', '1') == '1':
        gc.freeze()
    if os.environ.get('VERIF_GC_AUTO') != '1':      # (VERIF_GC_AUTO=1: experiment switch, leaves the collector on)
        gc.disable()
    return mpmath

def pkg_dir():
    import mpmath
    return os.path.dirname(os.path.abspath(mpmath.__file__)) + os.sep

def tree_digest():
    """sha256 over the package sources actually imported (evidence, replay header)."""
    import hashlib
    h = hashlib.sha256()
    root = pkg_dir()
    for d, dirs, files in sorted(os.walk(root)):
        dirs.sort()
        if os.sep + 'tests' in d:
            continue
        for f in sorted(files):
            if f.endswith('.py'):
                p = os.path.join(d, f)
                h.update(os.path.relpath(p, root).encode())
                with open(p, 'rb') as fh:
                    h.update(fh.read())
    return h.hexdigest()
