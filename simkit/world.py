"""The simulated world: actors (contexts), the object store, the step
interpreter, fault resolution by dry run, and the event log.

A World lives in a child forked from a pristine process.  Steps are JSON-able
dicts (see DESIGN.md appendix B).  Executing a step never draws from a PRNG;
fault positions that the generator left relative (`u`) are resolved against a
fault-free dry run of the same step in a forked copy of the current state, and
the resolved address is written back into the step, so the executed program is
the replay file.
"""
import os, sys, io, ast, gc, operator, random, hashlib
from fractions import Fraction

from simkit import codec, proc
from simkit.monitor import (Monitor, SimFault, SimInterrupt, SimBudget, UserFault)
from ops import callbacks

OPERATORS = {
    'add': operator.add, 'sub': operator.sub, 'mul': operator.mul, 'truediv': operator.truediv,
    'mod': operator.mod, 'pow': operator.pow, 'floordiv': operator.floordiv,
    'pos': operator.pos, 'neg': operator.neg, 'abs': operator.abs,
    'eq': operator.eq, 'lt': operator.lt, 'le': operator.le,
    'getitem': operator.getitem, 'matmul': operator.mul,
    'divmod': divmod,
}
RECURSION_HEADROOM = 900       # frames a step may nest below its starting depth (CPython's default limit is 1000 in all)
PY_BUILTINS = {'str': str, 'repr': repr, 'float': float, 'int': int, 'complex': complex, 'hash': hash, 'bool': bool, 'round': round,
               'format': format, 'list': list}

class _Null(io.TextIOBase):
    def write(self, s):
        return len(s)

def exc_factory(name):
    import mpmath
    table = {
        'SimFault': SimFault, 'ZeroDivisionError': ZeroDivisionError, 'ValueError': ValueError,
        'OverflowError': OverflowError, 'MemoryError': MemoryError, 'TypeError': TypeError,
        'ArithmeticError': ArithmeticError, 'KeyError': KeyError, 'IndexError': IndexError,
        'NotImplementedError': NotImplementedError, 'AssertionError': AssertionError,
        'NoConvergence': mpmath.libmp.NoConvergence, 'ComplexResult': mpmath.libmp.ComplexResult,
        'StopIteration': StopIteration, 'RecursionError': RecursionError,
    }
    cls = table[name]
    return lambda: cls('injected ' + name)


class World(object):
    def __init__(self, budget=300000, resolve=True, dry_timeout=60.0, survey=None, survey_in=None):
        import mpmath
        from simkit import env
        self.mpmath = mpmath
        self.mon = Monitor.get(env.pkg_dir())
        self.budget = budget
        self.resolve = resolve
        self.dry_timeout = dry_timeout
        # pass A ("survey"): faults are not injected; per-step event counts are
        # recorded here so that pass B can place its faults without a dry run
        # per step (fork is expensive in this sandbox).  survey_in: counts from
        # pass A handed to pass B.
        self.survey = survey
        self.survey_in = survey_in
        self.actors = {'mp': mpmath.mp, 'iv': mpmath.iv, 'fp': mpmath.fp}
        mpmath.mp._sim_name = 'mp'
        mpmath.iv._sim_name = 'iv'
        mpmath.fp._sim_name = 'fp'
        self.vals = {}
        self.ns = {}
        self.shims = []
        self.step_shims = {}      # step id -> shims created by that step's arguments
        self.faults_noted = []
        self.log = []
        self.hook = None          # machine callback: hook(world, event, step, rec)
        self.seed_base = b'0'
        self.nested_depth = 0
        self.stats = {'steps': 0, 'starts': 0, 'lines': 0, 'dry_runs': 0, 'fired': {},
                      'absorbed': 0, 'notfired': 0, 'raised_nat': 0, 'budget': 0}
        self._null = _Null()
        self._compiled = {}

    # ------------------------------------------------------------------ utils
    def ctx(self, name):
        return self.actors[name]

    def note_fault(self, info):
        self.faults_noted.append(info)

    def pin_random(self, step_id):
        h = hashlib.sha256(self.seed_base + b':' + str(step_id).encode()).digest()
        random.seed(int.from_bytes(h[:8], 'big'))

    # ------------------------------------------------------- argument decoding
    def mat(self, actor, spec):
        """Materialise an argument spec for an actor."""
        ctx = self.actors[actor]
        t = spec['t']
        if t in ('mpf', 'mpc') and spec.get('owner') == '*':
            # a number of a context that is not an actor of the run at all (a throw-away clone of mp)
            if getattr(self, '_outsider', None) is None:
                self._outsider = self.actors['mp'].clone()
            self.actors['*'] = self._outsider
            try:
                return self.mat('*', dict((k, v) for k, v in spec.items() if k != 'owner'))
            finally:
                del self.actors['*']
        if t == 'mpmathobj':
            # a user-defined number type: converts itself through the documented _mpmath_(prec, rounding) hook
            val = self._mk_mpf('mp', self.actors['mp'], spec['v'])
            class UserNumber(object):
                def _mpmath_(self, prec, rounding):
                    return val
            return UserNumber()
        if t in ('mpf', 'mpc', 'list', 'tuple', 'matrix') and spec.get('owner') in self.actors and spec['owner'] != actor:
            # a number that belongs to another context handed to this one (C38: the receiving
            # context must compute with it as with its own number of the same value)
            self.stats['foreign_operands'] = self.stats.get('foreign_operands', 0) + 1
            return self.mat(spec['owner'], dict((k, v) for k, v in spec.items() if k != 'owner'))
        if t == 'int':
            return int(spec['v'])
        if t == 'bool':
            return bool(spec['v'])
        if t == 'none':
            return None
        if t == 'float':
            return float.fromhex(spec['v'])
        if t == 'complex':
            return complex(float.fromhex(spec['v'][0]), float.fromhex(spec['v'][1]))
        if t == 'str':
            return spec['v']
        if t == 'frac':
            return Fraction(int(spec['v'][0]), int(spec['v'][1]))
        if t == 'mpq':
            from mpmath.rational import mpq
            return mpq(int(spec['v'][0]), int(spec['v'][1]))
        if t == 'mpf':
            return self._mk_mpf(actor, ctx, spec['v'])
        if t == 'mpc':
            re_ = self._mk_mpf(actor, ctx, spec['v'][0])
            im_ = self._mk_mpf(actor, ctx, spec['v'][1])
            if actor == 'fp':
                return complex(re_, im_)
            if actor == 'iv':
                return ctx.mpc(re_, im_)
            return ctx.make_mpc((re_._mpf_, im_._mpf_))
        if t == 'iv':
            a = self._mk_mpf('mp', self.actors['mp'], spec['v'][0])
            b = self._mk_mpf('mp', self.actors['mp'], spec['v'][1])
            return self.actors['iv'].mpf([a, b])
        if t == 'const':
            return getattr(ctx, spec['v'])
        if t == 'attr':
            return getattr(ctx, spec['v'])
        if t in ('list', 'tuple'):
            v = [self.mat(actor, s) for s in spec['v']]
            return v if t == 'list' else tuple(v)
        if t == 'matrix':
            return ctx.matrix([[self.mat(actor, s) for s in row] for row in spec['v']])
        if t == 'cb':
            return callbacks.Shim(self, ctx, spec)
        if t == 'obj':
            v = self.vals[spec['i']]
            if 'k' in spec:          # a component of a returned tuple / list (e.g. the LU matrix of LU_decomp's result)
                v = v[spec['k']]
            return v
        if t == 'ref':
            v = self.vals.get(spec['i'], None)
            if v is not None and self._usable(actor, v):
                conc = self._concretise(v)
                if conc is not None:
                    spec.clear(); spec.update(conc)
                    return self.mat(actor, spec)
            fb = spec['fb']
            spec.clear(); spec.update(fb)
            return self.mat(actor, spec)
        if t == 'slice':
            return slice(spec['v'][0], spec['v'][1])
        if t == 'enc':       # a value given in codec encoding (snapshots of objects)
            return self.from_enc(actor, spec['v'])
        if t == 'matrixraw':
            m = ctx.matrix(spec['rows'], spec['cols'])
            k = 0
            for i in range(spec['rows']):
                for j in range(spec['cols']):
                    m[i, j] = self.from_enc(actor, spec['v'][k]); k += 1
            return m
        if t == 'call':      # nested constructor call evaluated at materialisation: f(*args)
            f = getattr(ctx, spec['f'])
            return f(*[self.mat(actor, s) for s in spec['v']])
        raise ValueError('bad arg spec %r' % (spec,))

    def from_enc(self, actor, e):
        ctx = self.actors[actor]
        k = e[0]
        if k == 'mpf':
            if actor == 'fp':
                return float(self.actors['mp'].make_mpf(codec.dec_raw_mpf(e)))
            return ctx.make_mpf(codec.dec_raw_mpf(e))
        if k == 'mpc':
            if actor == 'fp':
                return complex(float(self.actors['mp'].make_mpf(codec.dec_raw_mpf(e[1]))), float(self.actors['mp'].make_mpf(codec.dec_raw_mpf(e[2]))))
            return ctx.make_mpc((codec.dec_raw_mpf(e[1]), codec.dec_raw_mpf(e[2])))
        if k == 'int':
            return int(e[1])
        if k == 'float':
            return float.fromhex(e[1])
        if k == 'complex':
            return complex(float.fromhex(e[1]), float.fromhex(e[2]))
        if k == 'bool':
            return bool(e[1])
        if k == 'none':
            return None
        if k == 'str':
            return e[1]
        if k in ('list', 'tuple'):
            v = [self.from_enc(actor, x) for x in e[1]]
            return v if k == 'list' else tuple(v)
        if k == 'matrix':
            m = ctx.matrix(e[1], e[2])
            n = 0
            for i in range(e[1]):
                for j in range(e[2]):
                    m[i, j] = self.from_enc(actor, e[3][n]); n += 1
            return m
        raise ValueError('cannot materialise %r' % (e[:2],))

    def _mk_mpf(self, actor, ctx, v):
        sign, hexman, exp = v[0], v[1], v[2]
        man = int(hexman, 16)
        if len(v) > 3 and not man:
            raw = (sign, man, exp, v[3])            # specials and zero keep their tuple
        elif not man:
            raw = (0, 0, 0, 0)
        else:
            # canonical: odd mantissa
            tz = (man & -man).bit_length() - 1
            man >>= tz; exp += tz
            raw = (sign, man, exp, man.bit_length())
        if actor == 'fp':
            return float(self.actors['mp'].make_mpf(raw))
        if actor == 'iv':
            return ctx.mpf(self.actors['mp'].make_mpf(raw))
        return ctx.make_mpf(raw)

    def _usable(self, actor, v):
        if actor in ('fp', 'iv'):
            return False
        # an earlier result is re-used as an operand only if its magnitude is moderate: factorial(997) as a
        # hypergeometric parameter makes the series loop run for minutes inside one generated function, where
        # no step-clock event can interrupt it (11 of 2 500 C10 runs ended at the wall-clock backstop)
        def moderate(t):
            return (not t[1]) or abs(t[2] + t[3]) <= 100
        if hasattr(v, '_mpf_'):
            return moderate(v._mpf_)
        if hasattr(v, '_mpc_'):
            return moderate(v._mpc_[0]) and moderate(v._mpc_[1])
        return False

    def _concretise(self, v):
        if hasattr(v, '_mpf_'):
            s, m, e, b = v._mpf_
            return {'t': 'mpf', 'v': [int(s), '%x' % m, int(e), int(b)]}
        if hasattr(v, '_mpc_'):
            (s, m, e, b), (s2, m2, e2, b2) = v._mpc_
            return {'t': 'mpc', 'v': [[int(s), '%x' % m, int(e), int(b)], [int(s2), '%x' % m2, int(e2), int(b2)]]}
        return None

    # ------------------------------------------------------------- operations
    def thunk(self, step):
        """Build a zero-argument callable for a leaf step (call / stmt).
        Arguments are materialised here, *outside* the monitored bracket."""
        kind = step['kind']
        if kind == 'stmt':
            return self._stmt_thunk(step)
        actor = step['actor']
        ctx = self.actors[actor]
        op = step['op']
        args = [self.mat(actor, s) for s in step.get('args', [])]
        kwargs = dict((k, self.mat(actor, s)) for k, s in sorted(step.get('kwargs', {}).items()))
        pre = step.get('prec_kw')
        head, _, name = op.partition(':')
        if head == 'f':
            f = getattr(ctx, name)
            return lambda: f(*args, **kwargs)
        if head == 'op':
            f = OPERATORS[name]
            return lambda: f(*args)
        if head == 'new':
            f = getattr(ctx, name)
            return lambda: f(*args, **kwargs)
        if head == 'm':
            obj = args[0]
            rest = args[1:]
            return lambda: getattr(obj, name)(*rest, **kwargs)
        if head == 'call':      # call a stored callable object (interpolant, memoized fn, ...)
            obj = args[0]
            rest = args[1:]
            return lambda: obj(*rest, **kwargs)
        if head == 'lib':
            f = getattr(self.mpmath.libmp, name)
            return lambda: f(*args, **kwargs)
        if head == 'next':
            g = args[0]
            return lambda: next(g)
        if head == 'close':
            g = args[0]
            return lambda: g.close()
        if head == 'setitem':
            obj, key, val = args
            def _si():
                obj[key] = val
            return _si
        if head == 'setattr':
            obj, val = args
            def _sa():
                setattr(obj, name, val)
            return _sa
        if head == 'getattr':
            obj = args[0]
            return lambda: getattr(obj, name)
        if head == 'deco':      # manager used as decorator on a callback, then called
            mgr = getattr(ctx, name)
            margs = args[:-2]
            cb, x = args[-2], args[-1]
            def _deco():
                return mgr(*margs, **kwargs)(cb)(x)
            return _deco
        if head == 'mkdeco':    # the decorated function itself (kept, called in later steps): ctx.<manager>(n, ...)(callback)
            mgr = getattr(ctx, name)
            margs = args[:-1]
            cb = args[-1]
            return lambda: mgr(*margs, **kwargs)(cb)
        if head == 'py':        # a Python builtin applied to a number / matrix: str, repr, float, int, complex, hash, bool, round
            f = PY_BUILTINS[name]
            return lambda: f(*args)
        if head == 'wrapcall':  # ctx.<name>(callback, *extra) returns a callable; call it with x
            w = getattr(ctx, name)
            cb = args[0]; extra = args[1:-1]; x = args[-1]
            def _wc():
                return w(cb, *extra, **kwargs)(x)
            return _wc
        raise ValueError('bad op %r' % op)

    def _stmt_thunk(self, step):
        sid = step.get('script', 0)
        ns = self.ns.get(sid)
        if ns is None:
            ns = self.ns[sid] = {}
            exec('from mpmath import *', ns)
        src = step['src']
        c = self._compiled.get(src)
        if c is None:
            tree = ast.parse(src, '<doc>', 'exec')
            is_expr = len(tree.body) == 1 and isinstance(tree.body[0], ast.Expr)
            if is_expr:
                code = compile(ast.Expression(tree.body[0].value), '<doc>', 'eval')
            else:
                code = compile(tree, '<doc>', 'exec')
            c = self._compiled[src] = (is_expr, code)
        is_expr, code = c
        if is_expr:
            def _ev():
                v = eval(code, ns)
                if v is not None:
                    ns['_'] = v
                return v
            return _ev
        def _ex():
            exec(code, ns)
        return _ex

    # --------------------------------------------------------------- execution
    def guarded(self, th, budget=None, f2=None, f3=None, collect=False, lines=False):
        mon = self.mon
        res = None
        exc = None
        old = sys.stdout
        sys.stdout = self._null
        # two schedulers the simulation must own (see simkit/env.py and DESIGN 6.2):
        #  - the cyclic collector: collect now, outside the monitored region (automatic collection is off)
        #  - the interpreter's recursion limit: a runaway recursion must end after the same number of frames
        #    whether the step runs in a pool worker, in a forked child or nested in a callback, so the limit is
        #    set relative to the depth at which the step starts
        if self.nested_depth == 0:
            gc.collect()
        depth = 0
        fr = sys._getframe()
        while fr is not None:
            depth += 1
            fr = fr.f_back
        old_limit = sys.getrecursionlimit()
        sys.setrecursionlimit(depth + RECURSION_HEADROOM)
        mon.begin(budget=budget, f2=f2, f3=f3, collect=collect, lines=lines)
        try:
            res = th()
        except BaseException as e:
            exc = e
        finally:
            info = mon.end()
            sys.stdout = old
            sys.setrecursionlimit(max(old_limit, depth + 50))
        if exc is not None and type(exc).__name__ == 'RunTimeout':
            # the wall-clock backstop of simkit.isolate is not an outcome of the step: it ends the
            # run (-> inconclusive), it is never recorded as "the operation raised"
            raise exc
        return res, exc, info

    def _dry(self, step):
        """Fault-free run of `step` in a forked copy of the current state;
        returns event counts (and store sites when asked)."""
        fault = step['fault']
        want_lines = fault['kind'] == 'F3'
        def child():
            st = _strip_fault(step)
            self.pin_random(step.get('id', 0))
            self.shims = []
            th = self.thunk(st)
            res, exc, info = self.guarded(th, budget=self.budget, collect=want_lines, lines=want_lines)
            sites = None
            if want_lines:
                sites = sorted((k[0], k[1], v[0], v[1]) for k, v in self.mon.sites.items())
            return {'starts': info['starts'], 'lines': info['lines'], 'sites': sites,
                    'cb': [s.calls for s in self.shims], 'raised': exc is not None,
                    'budget_hit': info['budget_hit']}
        self.stats['dry_runs'] += 1
        st, val = proc.call_in_child(child, timeout=self.dry_timeout)
        if st != 'ok':
            return None
        return val

    def resolve_fault(self, step):
        """Turn a relative fault (u) into a concrete address, once."""
        fault = step.get('fault')
        if not fault or fault.get('resolved'):
            return
        kind = fault['kind']
        if kind in ('F1', 'F4') and 'k' in fault:
            fault['resolved'] = True
            self._apply_f1(step, fault)
            return
        if self.survey_in is not None:
            d = self.survey_in.get(step.get('id'))
        else:
            d = self._dry(step)
        fault['resolved'] = True
        if d is None:
            fault['void'] = 'dry-run failed'
            return
        u = fault['u']
        if kind == 'F2':
            n = d['starts']
            if n < 1:
                fault['void'] = 'no eligible event'
                return
            fault['k'] = 1 + int(u * n)
            fault['n'] = n
        elif kind == 'F3':
            pl = fault.get('placement', 'uniform')
            n = d['lines']
            if n < 1:
                fault['void'] = 'no eligible event'
                return
            fault['n'] = n
            if pl == 'store' and d['sites']:
                sites = d['sites']
                i = int(u * len(sites))
                f, ln, cnt, fn = sites[min(i, len(sites) - 1)]
                frac = u * len(sites) - i
                occ = 1 + int(frac * cnt)
                fault['site'] = [f, ln, min(occ, cnt)]
                fault['func'] = fn
                fault['nsites'] = len(sites)
            else:
                if pl == 'late':
                    u = u ** (1.0 / 3.0)
                fault['k'] = 1 + int(u * n)
        elif kind in ('F1', 'F4'):
            cbs = d['cb']
            tot = cbs[fault.get('slot', 0)] if cbs and fault.get('slot', 0) < len(cbs) else 0
            if tot < 1:
                fault['void'] = 'callback never invoked'
                return
            fault['k'] = 1 + int(u * tot)
            fault['n'] = tot
            self._apply_f1(step, fault)

    def _apply_f1(self, step, fault):
        """F1/F4 live in the callback shim of the chosen slot."""
        slot = fault.get('slot', 0)
        if 'shim_of' in fault:
            # the callback was handed over in an earlier step (e.g. the right-hand side of an
            # odefun interpolant): arm that shim relative to its invocations so far
            shims = self.step_shims.get(fault['shim_of']) or []
            if slot < len(shims):
                sh = shims[slot]
                sh.k = sh.calls + fault['k']
                sh.act = fault.get('act', 'raise')
                sh.nested = fault.get('step')
                sh.fired = False
            return
        cbs = [s for s in _walk_specs(step) if s.get('t') == 'cb']
        if slot < len(cbs):
            sh = {'k': fault['k'], 'act': fault.get('act', 'nested' if fault['kind'] == 'F4' else 'raise')}
            if 'step' in fault:
                sh['step'] = fault['step']
            cbs[slot]['shim'] = sh

    def exec_leaf(self, step):
        """Execute a call/stmt step, with its fault if any.  Returns a record."""
        sid = step.get('id', 0)
        fault = step.get('fault')
        if self.survey is not None:
            return self._survey_leaf(step, fault)
        if fault and self.resolve and not fault.get('resolved'):
            self.resolve_fault(step)
        elif fault and fault.get('resolved') and fault['kind'] in ('F1', 'F4') and not fault.get('void'):
            self._apply_f1(step, fault)
        f2 = f3 = None
        if fault and not fault.get('void'):
            if fault['kind'] == 'F2':
                f2 = (fault['k'], exc_factory(fault.get('exc', 'SimFault')))
            elif fault['kind'] == 'F3':
                f3 = {'site': fault.get('site'), 'k': fault.get('k')}
        self.pin_random(sid)
        self.shims = []
        self.faults_noted = []
        rec = {'id': sid, 'kind': step['kind'], 'actor': step.get('actor', 'mp'),
               'op': step.get('op') or ('stmt:' + step.get('src', '')[:60])}
        try:
            th = self.thunk(step)
        except BaseException as e:
            rec['status'] = 'argerror'
            rec['exc'] = codec.enc_exc(e)
            self.log.append(rec)
            return rec, None
        if self.shims:
            self.step_shims[sid] = list(self.shims)
        res, exc, info = self.guarded(th, budget=self.budget, f2=f2, f3=f3)
        fired = info['fired']
        if fired is None and self.faults_noted:
            fired = self.faults_noted[0]
        self.stats['steps'] += 1
        self.stats['starts'] += info['starts']
        self.stats['lines'] += info['lines']
        rec['starts'] = info['starts']
        if fired:
            rec['fired'] = fired
            k = fired['kind']
            self.stats['fired'][k] = self.stats['fired'].get(k, 0) + 1
            if k == 'F6':
                self.stats['budget'] += 1
        elif fault and not fault.get('void'):
            self.stats['notfired'] += 1
        if exc is not None:
            rec['exc'] = codec.enc_exc(exc)
            if isinstance(exc, MemoryError) and not fired:
                self.stats.setdefault('memory_errors', []).append(str(step.get('key') or step.get('op') or step.get('kind')))
            rec['status'] = 'faulted' if fired else 'raised'
            if not fired:
                self.stats['raised_nat'] += 1
        else:
            rec['status'] = 'absorbed' if fired else 'ok'
            if fired:
                self.stats['absorbed'] += 1
            if 'id' in step:
                self.vals[sid] = res
        self.log.append(rec)
        return rec, res

    def _survey_leaf(self, step, fault):
        """Pass A: execute fault-free; record the event counts a fault would
        be placed against."""
        sid = step.get('id', 0)
        st = _strip_fault(step) if fault else step
        want_lines = bool(fault) and fault['kind'] == 'F3' and not fault.get('resolved')
        self.pin_random(sid)
        self.shims = []
        self.faults_noted = []
        rec = {'id': sid, 'kind': step['kind'], 'actor': step.get('actor', 'mp'),
               'op': step.get('op') or ('stmt:' + step.get('src', '')[:60])}
        try:
            th = self.thunk(st)
        except BaseException as e:
            rec['status'] = 'argerror'
            rec['exc'] = codec.enc_exc(e)
            self.log.append(rec)
            return rec, None
        if self.shims:
            self.step_shims[sid] = list(self.shims)
        ext = None
        if fault and 'shim_of' in fault:
            ext = self.step_shims.get(fault['shim_of']) or []
            before = [s.calls for s in ext]
        res, exc, info = self.guarded(th, budget=self.budget, collect=want_lines, lines=want_lines)
        if fault and not fault.get('resolved'):
            sites = None
            if want_lines:
                sites = sorted((k[0], k[1], v[0], v[1]) for k, v in self.mon.sites.items())
            cbc = [s.calls for s in self.shims]
            if ext is not None:
                cbc = [s.calls - b for s, b in zip(ext, before)]
            self.survey[sid] = {'starts': info['starts'], 'lines': info['lines'], 'sites': sites,
                                'cb': cbc}
        self.stats['steps'] += 1
        self.stats['starts'] += info['starts']
        self.stats['lines'] += info['lines']
        rec['starts'] = info['starts']
        fired = info['fired']          # only F6 can fire here
        if fired:
            rec['fired'] = fired
            self.stats['fired'][fired['kind']] = self.stats['fired'].get(fired['kind'], 0) + 1
            self.stats['budget'] += 1
        if exc is not None:
            rec['exc'] = codec.enc_exc(exc)
            if isinstance(exc, MemoryError) and not fired:
                self.stats.setdefault('memory_errors', []).append(str(step.get('key') or step.get('op') or step.get('kind')))
            rec['status'] = 'faulted' if fired else 'raised'
            if not fired:
                self.stats['raised_nat'] += 1
        else:
            rec['status'] = 'ok'
            if 'id' in step:
                self.vals[sid] = res
        self.log.append(rec)
        return rec, res

    # nested step run from inside a callback (F4)
    def run_nested(self, nested, shim):
        if self.nested_depth > 0 or not nested:
            return
        self.nested_depth += 1
        try:
            self.note_fault({'kind': 'F4', 'cb': shim.name, 'k': shim.k})
            actor = nested.get('actor', 'mp')
            ctx = self.actors.get(actor)
            if ctx is None:
                return
            rec = {'id': nested.get('id', -1), 'kind': 'nested', 'actor': actor, 'op': nested.get('op')}
            try:
                if nested.get('workprec'):
                    with ctx.workprec(nested['workprec']):
                        v = self.thunk(nested)()
                else:
                    if nested.get('setprec'):
                        ctx.prec = nested['setprec']
                    v = self.thunk(nested)()
                rec['status'] = 'ok'
                rec['result'] = codec.encode(v)
            except Exception as e:
                rec['status'] = 'raised'
                rec['exc'] = codec.enc_exc(e)
            self.log.append(rec)
            if self.hook:
                self.hook(self, 'nested', nested, rec)
        finally:
            self.nested_depth -= 1

    def digest(self):
        h = hashlib.sha256()
        h.update(repr(self.log).encode())
        dump = os.environ.get('VERIF_DUMPLOG')
        if dump:                # diagnosis of in-process / fork divergences (tools/runseed.py): one line per world
            with open(dump, 'a') as f:
                f.write(repr(self.log) + '\n')
        return h.hexdigest()


def _strip_fault(step):
    st = dict(step)
    st.pop('fault', None)
    st = _deepcopy(st)
    for s in _walk_specs(st):
        if s.get('t') == 'cb':
            s.pop('shim', None)
    return st

def _deepcopy(x):
    if isinstance(x, dict):
        return dict((k, _deepcopy(v)) for k, v in x.items())
    if isinstance(x, list):
        return [_deepcopy(v) for v in x]
    return x

def _walk_specs(step):
    """All argument spec dicts of a step, depth first in argument order."""
    out = []
    def w(s):
        if isinstance(s, dict):
            if 't' in s:
                out.append(s)
                v = s.get('v')
                if isinstance(v, list):
                    for x in v:
                        w(x)
            else:
                for k in sorted(s):
                    w(s[k])
        elif isinstance(s, list):
            for x in s:
                w(x)
    for a in step.get('args', []):
        w(a)
    kw = step.get('kwargs', {})
    for k in sorted(kw):
        w(kw[k])
    return out
