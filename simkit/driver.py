"""Batch driver: seeds -> runs -> violations -> minimised replay files -> evidence.

One integer (VERIF_SEED) decides the batch; run i of property P uses
seed_i = sha256(P, VERIF_SEED, i).  Runs are distributed over forked workers;
every run executes in a child forked from the (pristine) worker, so the
initial state of a run does not depend on worker count or scheduling.
"""
import os, sys, re, json, time, hashlib, random, argparse, traceback, faulthandler
import multiprocessing
from concurrent.futures import ProcessPoolExecutor, as_completed

from simkit import env

def seed_for(prop, batch_seed, i):
    h = hashlib.sha256(('%s/%d/%d' % (prop, batch_seed, i)).encode()).digest()
    return int.from_bytes(h[:8], 'big')

_MACHINE = None
# seconds after the start by which confirming/minimising violations must be over
# (the commands in MANIFEST.json are wrapped in `timeout 900` / `timeout 3000`)
HARD = {'quick': 560, 'thorough': 2500}

def _init_worker():
    """Address-space limit per worker: an operation that tries to allocate tens of GB (seen: 20 GB
    in one C10 run) gets a MemoryError instead of having the kernel kill the worker."""
    try:
        import resource
        lim = int(os.environ.get('VERIF_MEM_GB', '6')) << 30
        resource.setrlimit(resource.RLIMIT_AS, (lim, lim))
    except Exception:
        pass

def _worker_run(task):
    i, seed_i, tier = task
    m = _MACHINE
    if isinstance(i, str) and i.startswith('R:'):
        # a regression input: replayed in a forked pristine child, like every confirmation
        try:
            with open(seed_i) as f:
                rp = json.load(f)
            return {'regress': seed_i, 'program': rp, 'result': m.run(rp, mode='fork')}
        except BaseException as e:
            return {'regress': seed_i, 'program': None, 'result': {'status': 'inconclusive', 'error': repr(e)}}
    try:
        rng = random.Random(seed_i)
        prog = m.generate(rng, tier)
        prog['seed'] = seed_i
        prog['property'] = m.PROP
        t_run = time.time()
        res = m.run(prog)
        if time.time() - t_run > 60:
            sys.stderr.write('slow run (%.0f s): run %s seed %s\n' % (time.time() - t_run, i, seed_i))
        res['i'] = i
        res['seed'] = seed_i
        if res.get('violations'):
            res['program'] = res.get('program') or prog
        else:
            keep = res.pop('program', None)
            if i < 3:
                res['sample'] = keep or prog
        return res
    except BaseException as e:
        return {'i': i, 'seed': seed_i, 'status': 'harness-error',
                'error': ''.join(traceback.format_exception(type(e), e, e.__traceback__))[-3000:]}

def load_known(prop):
    path = os.path.join(env.VERIF, 'known_findings.json')
    try:
        with open(path) as f:
            data = json.load(f)
    except (IOError, ValueError):
        return []
    return [k for k in data.get('findings', []) if k.get('property') == prop]

def match_known(v, known):
    """A listed finding matches on check *and* entry point (and the optional
    'detail_has' substring), so a different violation of the same property
    is still reported."""
    for k in known:
        kc = k.get('check')
        if v.get('check') not in (kc if isinstance(kc, list) else [kc]):
            continue
        if k.get('entry') is not None and k.get('entry') != v.get('entry'):
            continue
        if k.get('entry_re') is not None and not re.match(k['entry_re'] + '$', str(v.get('entry'))):
            continue
        dj = json.dumps(v.get('detail'), sort_keys=True)
        if any(k.get(n) and k[n] not in dj for n in ('detail_has', 'detail_has2')):
            continue
        return k
    return None

def vclass(v):
    return (v.get('check'), v.get('entry'))

def merge_stats(agg, st):
    for k, v in st.items():
        if isinstance(v, dict):
            merge_stats(agg.setdefault(k, {}), v)
        elif isinstance(v, (int, float)):
            agg[k] = agg.get(k, 0) + v
        elif isinstance(v, list):
            s = agg.setdefault(k, [])
            for x in v:
                if x not in s and len(s) < 400:
                    s.append(x)
        elif isinstance(v, set):
            agg.setdefault(k, set()).update(v)

def main(machine, argv=None):
    global _MACHINE
    ap = argparse.ArgumentParser()
    ap.add_argument('--tier', default=os.environ.get('VERIF_TIER', 'quick'))
    ap.add_argument('--replay')
    ap.add_argument('--runs', type=int)
    ap.add_argument('--seed', type=int)
    ap.add_argument('--workers', type=int, default=int(os.environ.get('VERIF_WORKERS', '16')))
    ap.add_argument('--wall', type=float, help='wall-clock budget in seconds for the batch')
    ap.add_argument('--no-evidence', action='store_true')
    ap.add_argument('--no-minimise', action='store_true')
    ap.add_argument('--dump-digests')
    ap.add_argument('--dump-violations')
    ap.add_argument('--first', type=int, default=0, help='index of the first run')
    args = ap.parse_args(argv)
    faulthandler.enable()
    prop = machine.PROP
    tier = args.tier if args.tier in ('quick', 'thorough') else 'quick'
    if args.replay:
        return replay(machine, args.replay)
    seed = args.seed if args.seed is not None else int(os.environ.get('VERIF_SEED', machine.DEFAULT_SEED))
    t0 = time.time()
    _MACHINE = machine
    machine.setup(tier, args.workers)
    setup_s = time.time() - t0
    sys.stderr.write('setup %.1fs\n' % setup_s)
    nruns = args.runs or machine.RUNS[tier]
    wall = args.wall or machine.WALL[tier]
    known = load_known(prop)
    # regression inputs: minimised programs of violations found earlier (each was a
    # genuine defect, since fixed or listed).  A fixed entry suppresses nothing: if
    # its program violates again, that is reported like any other violation.
    # They are replayed (in forked pristine children) by the pool workers, first in the queue and
    # regardless of the wall budget of the batch.
    regress_results = []
    regress_tasks = []
    rdir = os.path.join(env.VERIF, 'regress')
    if os.path.isdir(rdir) and not args.first:
        for fn in sorted(os.listdir(rdir)):
            if fn.startswith(prop + '-') and fn.endswith('.json'):
                regress_tasks.append(('R:' + fn, os.path.join(rdir, fn), tier))
    tasks = [(i, seed_for(prop, seed, i), tier) for i in range(args.first, args.first + nruns)]
    agg = {}
    results = []
    violations = []
    inconclusive = 0
    harness_errors = []
    digests = {}
    samples = []
    done = 0
    ctx = multiprocessing.get_context('fork')
    deadline = t0 + wall
    from concurrent.futures.process import BrokenProcessPool
    it = iter(tasks)
    requeue = list(reversed(regress_tasks))      # served first, whatever the deadline
    # (also) tasks that were in flight when a worker died
    strikes = {}                 # task index -> number of pool breakages it was in flight for
    pool_breaks = 0
    while True:
        ex = ProcessPoolExecutor(args.workers, mp_context=ctx, initializer=_init_worker)
        pending = {}
        broken = False
        def submit_some():
            while len(pending) < args.workers * 3:
                if requeue:
                    t = requeue.pop()
                elif time.time() < deadline:
                    try:
                        t = next(it)
                    except StopIteration:
                        return
                else:
                    return
                pending[ex.submit(_worker_run, t)] = t
        try:
            submit_some()
            while pending:
                for fut in as_completed(list(pending)):
                    t = pending.pop(fut)
                    try:
                        r = fut.result()
                    except BrokenProcessPool:
                        # a worker died (out of memory, stack overflow in C): every task in flight is
                        # re-queued once; a task that was in flight for two breakages is given up
                        broken = True
                        for tt in [t] + list(pending.values()):
                            strikes[tt[0]] = strikes.get(tt[0], 0) + 1
                            if strikes[tt[0]] >= 2:
                                inconclusive += 1
                                done += 1
                            else:
                                requeue.append(tt)
                        pending.clear()
                        break
                    if 'regress' in r:
                        regress_results.append((r['regress'], r.get('program'), r['result']))
                        submit_some()
                        break
                    done += 1
                    st = r.get('status', 'ok')
                    if st == 'harness-error':
                        harness_errors.append(r)
                    elif st == 'inconclusive':
                        inconclusive += 1
                        if inconclusive <= 12:
                            sys.stderr.write('inconclusive (wall-clock backstop): run %s seed %s\n' % (r.get('i'), r.get('seed')))
                    else:
                        merge_stats(agg, r.get('stats', {}))
                        digests[r['i']] = r.get('digest')
                        for v in r.get('violations', []):
                            violations.append((r, v))
                        if 'sample' in r and len(samples) < 3:
                            samples.append(machine.sample_view(r['sample']))
                    submit_some()
                    break
                if broken:
                    break
        finally:
            ex.shutdown(wait=not broken, cancel_futures=True)
        if not broken:
            break
        pool_breaks += 1
        if pool_breaks > 8:
            print('HARNESS-ERROR: worker pool broke %d times' % pool_breaks)
            harness_errors.append({'error': 'worker pool broke repeatedly'})
            break
    run_s = time.time() - t0
    if args.dump_digests:
        with open(args.dump_digests, 'w') as f:
            json.dump({str(k): v for k, v in sorted(digests.items())}, f, indent=0)
    if args.dump_violations:
        with open(args.dump_violations, 'w') as f:
            for r, v in violations:
                f.write(json.dumps({'seed': r.get('seed'), 'v': v}, sort_keys=True, default=_json_default) + '\n')
    # ---- triage --------------------------------------------------------------
    known_hit = {}
    unknown = {}
    if hasattr(machine, 'extra_violations') and not args.first:
        for xprog, xv in machine.extra_violations():
            xprog.setdefault('seed', 0); xprog['property'] = prop
            violations.append(({'program': xprog, 'seed': xprog['seed'], 'i': -1}, xv))
    for r, v in violations:
        k = match_known(v, known)
        if k is not None:
            known_hit.setdefault(k['id'], [k, 0])[1] += 1
        else:
            unknown.setdefault(vclass(v), []).append((r, v))
    exit_code = 0
    replays = []
    leaks = 0
    if len(regress_results) < len(regress_tasks):
        print('HARNESS-ERROR: %d of %d regression inputs were not replayed' % (len(regress_tasks) - len(regress_results), len(regress_tasks)))
        leaks += 1
    for path, rp, rr in sorted(regress_results, key=lambda t: t[0]):
        if rr.get('status') == 'inconclusive':
            print('HARNESS-ERROR: regression input %s inconclusive' % path)
            leaks += 1
            continue
        for v in rr.get('violations', []):
            k = match_known(v, known)
            if k is not None:
                known_hit.setdefault(k['id'], [k, 0])[1] += 1
                continue
            replays.append(path)
            print('VIOLATION property=%s replay=%s' % (prop, path))
            print('  (regression input) check=%s entry=%s detail=%s' % (v.get('check'), v.get('entry'),
                                                                        json.dumps(v.get('detail'), sort_keys=True)[:600]))
            break
    for kid, (k, cnt) in sorted(known_hit.items()):
        print('KNOWN-FINDING: property=%s %s [%s; seen %d times in this batch]' % (prop, k.get('what', ''), kid, cnt))
    # triage has its own deadline, well inside the time-outs registered in MANIFEST.json: a change
    # that breaks a property in many places must still end in VIOLATION lines and exit 1, not in a kill
    hard = t0 + max(wall + 120, HARD.get(tier, 600) if not args.wall else wall * 3)
    def write_replay(path, prog, v):
        prog = dict(prog)
        prog['violation'] = v
        prog['tree'] = env.tree_digest()
        prog['python'] = sys.version.split()[0]
        prog['hashseed'] = os.environ.get('PYTHONHASHSEED')
        with open(path, 'w') as f:
            json.dump(prog, f, indent=1, sort_keys=True)
    if unknown:
        os.makedirs(os.path.join(env.VERIF, 'replays'), exist_ok=True)
        reported = []
        untriaged = 0
        # phase 1: confirm and report (smallest classes of work first: shortest programs)
        for n, (cls, lst) in enumerate(sorted(unknown.items(), key=lambda kv: str(kv[0]))):
            if reported and time.time() > hard:
                untriaged += 1
                continue
            lst.sort(key=lambda rv: (len(rv[0]['program'].get('steps', [])), rv[0]['seed']))
            # every violation is confirmed in a freshly forked pristine child before it
            # is reported: the in-process isolation is an optimisation, never the judge
            confirmed = None
            for r, v in lst[:3]:
                conf = machine.run(json.loads(json.dumps(r['program'])), mode='fork')
                if any(vclass(x) == cls for x in conf.get('violations', [])):
                    confirmed = (r, v)
                    break
            if confirmed is None:
                print('HARNESS-ERROR: violation class %s seen in-process but not reproduced in a forked pristine child '
                      '(isolation leak or nondeterminism); first seed %d' % (cls, lst[0][0]['seed']))
                leaks += 1
                continue
            r, v = confirmed
            path = os.path.join(env.VERIF, 'replays', '%s-%d.json' % (prop, r['seed']))
            write_replay(path, r['program'], v)
            replays.append(path)
            reported.append((r, v, path))
            print('VIOLATION property=%s replay=%s' % (prop, path))
            print('  check=%s entry=%s occurrences=%d detail=%s' % (v.get('check'), v.get('entry'), len(lst),
                                                                     json.dumps(v.get('detail'), sort_keys=True)[:600]))
            sys.stdout.flush()
        if untriaged:
            print('  (%d further violation classes seen in-process were not triaged: triage deadline reached)' % untriaged)
        # phase 2: minimise the replay files in place, as far as the deadline allows
        if not args.no_minimise:
            from simkit import minimise
            for r, v, path in reported[:12]:
                left = hard - time.time()
                if left < 20:
                    break
                try:
                    prog = minimise.minimise(machine, r['program'], v, budget_s=min(machine.MIN_WALL, left / 2))
                    write_replay(path, prog, v)
                    sys.stderr.write('minimised %s: %d -> %d steps\n' % (os.path.basename(path), len(r['program'].get('steps', [])),
                                                                           len(prog.get('steps', []))))
                except BaseException as e:
                    sys.stderr.write('minimiser failed: %r\n' % (e,))
        sys.stdout.flush()
    if replays:
        exit_code = 1
    elif leaks:
        exit_code = 2
    if harness_errors:
        print('HARNESS-ERROR: %d runs failed inside the harness; first:\n%s' % (len(harness_errors), harness_errors[0].get('error')))
        exit_code = exit_code or 2
    ok_runs = done - inconclusive - len(harness_errors)
    if done and inconclusive > max(2, 0.02 * done):
        print('HARNESS-ERROR: %d of %d runs inconclusive (wall-clock backstop)' % (inconclusive, done))
        exit_code = exit_code or 2
    if ok_runs <= 0:
        print('HARNESS-ERROR: no run completed')
        exit_code = exit_code or 2
    # ---- evidence ---------------------------------------------------------------
    if not args.no_evidence and ok_runs > 0:
        ev = machine.evidence(agg, tier)
        cov = ev['coverage']
        cov['evaluations'] = ok_runs
        cov['samples'] = samples[:3] or cov.get('samples') or ['(no sample)']
        cov['runs_per_hour'] = int(ok_runs / max(run_s, 1e-9) * 3600)
        cov['seeds'] = {'batch_seed': seed, 'first_run': args.first, 'runs_submitted': done, 'derivation': 'sha256(property/batch_seed/i)[:8]'}
        cov['inconclusive_runs'] = '%d of %d (runs ended by the wall-clock backstop; machine-load dependent, never judged)' % (inconclusive, done)
        cov['worker_pool_breakages'] = pool_breaks
        cov['operations_that_hit_the_address_space_limit'] = sorted(set(agg.get('world', {}).get('memory_errors', [])))
        cov['setup_s'] = round(setup_s, 2)
        cov['known_findings_seen'] = {kid: c for kid, (k, c) in known_hit.items()}
        cov['tree_digest'] = env.tree_digest()
        cov['simulated_time'] = 'mpmath has no clock; the only time is the step clock: %d PY_START events, %d LINE events inside operations' % (
            agg.get('world', {}).get('starts', 0), agg.get('world', {}).get('lines', 0))
        out = {'property_id': prop, 'tier': tier, 'seed': seed, 'level': 'exploration', 'coverage': cov,
               'assumptions': ev.get('assumptions', []), 'wall_s': round(time.time() - t0, 2),
               'violations': len(replays)}
        os.makedirs(os.path.join(env.VERIF, 'evidence'), exist_ok=True)
        with open(os.path.join(env.VERIF, 'evidence', prop + '.json'), 'w') as f:
            json.dump(out, f, indent=1, sort_keys=True, default=_json_default)
    print('%s tier=%s seed=%d runs=%d ok=%d inconclusive=%d violations(confirmed classes)=%d known=%d wall=%.1fs' % (
        prop, tier, seed, done, ok_runs, inconclusive, len(replays), len(known_hit), time.time() - t0))
    return exit_code

def _json_default(o):
    if isinstance(o, (set, frozenset)):
        return sorted(o, key=str)
    return str(o)

def replay(machine, path):
    with open(path) as f:
        prog = json.load(f)
    machine.setup('quick', 1, replay=True)
    want = prog.get('violation')
    res = machine.run(prog, mode='fork')
    if res.get('status') == 'inconclusive':
        print('HARNESS-ERROR: replay inconclusive')
        return 2
    vs = res.get('violations', [])
    print('replay digest=%s' % res.get('digest'))
    hit = None
    for v in vs:
        if want is None or vclass(v) == vclass(want):
            hit = v
            break
    if hit is None and vs:
        hit = vs[0]
    if hit:
        print('VIOLATION property=%s replay=%s' % (machine.PROP, path))
        print('  check=%s entry=%s detail=%s' % (hit.get('check'), hit.get('entry'), json.dumps(hit.get('detail'), sort_keys=True)[:800]))
        return 1
    print('replay: no violation')
    return 0
