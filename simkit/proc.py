"""fork helpers.  A simulated run, a dry run and every pristine reference is a
forked child of a process that has imported mpmath and computed nothing."""
import os, sys, pickle, select, signal, time, traceback

class ChildFailure(Exception):
    pass

def call_in_child(fn, args=(), timeout=120.0):
    """Run fn(*args) in a forked child; return ('ok', value) | ('timeout', None)
    | ('crash', text).  The child never returns into the caller's stack."""
    r, w = os.pipe()
    sys.stdout.flush(); sys.stderr.flush()
    pid = os.fork()
    if pid == 0:
        code = 0
        try:
            os.close(r)
            try:
                import resource
                lim = int(os.environ.get('VERIF_MEM_GB', '6')) << 30
                resource.setrlimit(resource.RLIMIT_AS, (lim, lim))
            except Exception:
                pass
            try:
                val = ('ok', fn(*args))
            except BaseException as e:
                val = ('crash', ''.join(traceback.format_exception(type(e), e, e.__traceback__))[-4000:])
            data = pickle.dumps(val, protocol=4)
            with os.fdopen(w, 'wb') as f:
                f.write(data)
        except BaseException:
            code = 3
        finally:
            os._exit(code)
    os.close(w)
    chunks = []
    deadline = time.monotonic() + timeout if timeout else None
    status = None
    try:
        while True:
            if deadline is not None:
                left = deadline - time.monotonic()
                if left <= 0:
                    status = 'timeout'
                    break
                ready, _, _ = select.select([r], [], [], left)
                if not ready:
                    status = 'timeout'
                    break
            b = os.read(r, 1 << 16)
            if not b:
                break
            chunks.append(b)
    finally:
        os.close(r)
    if status == 'timeout':
        try:
            os.kill(pid, signal.SIGKILL)
        except OSError:
            pass
        os.waitpid(pid, 0)
        return ('timeout', None)
    os.waitpid(pid, 0)
    data = b''.join(chunks)
    if not data:
        return ('crash', 'child wrote nothing')
    try:
        return pickle.loads(data)
    except Exception as e:
        return ('crash', 'unpickle: %r' % (e,))
