"""Comparison of an encoded history value with the encoded pristine value
(DESIGN.md 2.6, "rounding-level difference" made precise).  No mpmath here:
all arithmetic is on exact rationals.
"""
from fractions import Fraction
from simkit import codec

class Shape(Exception):
    pass

def strip_tags(e):
    """encoded value without context tags (for identity comparison across contexts)"""
    k = e[0]
    if k == 'mpf':
        return e[:5]
    if k == 'mpc':
        return ['mpc', e[1][:5], e[2][:5]]
    if k in ('list', 'tuple'):
        return [k, [strip_tags(v) for v in e[1]]]
    if k == 'matrix':
        return ['matrix', e[1], e[2], [strip_tags(v) for v in e[3]]]
    if k == 'dict':
        return ['dict', [[strip_tags(a), strip_tags(b)] for a, b in e[1]]]
    return e

def flatten(e, out, shape):
    """numbers of an encoded value as exact rationals (or special markers);
    `shape` collects the structure for shape comparison"""
    k = e[0]
    if k == 'mpf':
        kind = codec.mpf_kind(e)
        shape.append('r')
        out.append(codec.mpf_fraction(e) if kind in ('finite', 'zero') else kind)
    elif k == 'mpc':
        shape.append('c')
        for part in (e[1], e[2]):
            kind = codec.mpf_kind(part)
            out.append(codec.mpf_fraction(part) if kind in ('finite', 'zero') else kind)
    elif k == 'float':
        shape.append('r')
        x = float.fromhex(e[1])
        out.append(Fraction(x) if x == x and x not in (float('inf'), float('-inf')) else repr(x))
    elif k == 'complex':
        shape.append('c')
        for h in (e[1], e[2]):
            x = float.fromhex(h)
            out.append(Fraction(x) if x == x and x not in (float('inf'), float('-inf')) else repr(x))
    elif k == 'int':
        shape.append('r')
        out.append(Fraction(int(e[1])))
    elif k == 'ivmpf':
        shape.append('iv')
        for part in (e[1], e[2]):
            kind = codec.mpf_kind(part)
            out.append(codec.mpf_fraction(part) if kind in ('finite', 'zero') else kind)
    elif k == 'ivmpc':
        shape.append('ivc')
        for part in e[1:5]:
            kind = codec.mpf_kind(part)
            out.append(codec.mpf_fraction(part) if kind in ('finite', 'zero') else kind)
    elif k in ('list', 'tuple'):
        shape.append('(%d' % len(e[1]))
        for v in e[1]:
            flatten(v, out, shape)
        shape.append(')')
    elif k == 'matrix':
        shape.append('M%dx%d' % (e[1], e[2]))
        for v in e[3]:
            flatten(v, out, shape)
    elif k in ('mpq', 'frac'):
        shape.append('r')
        out.append(Fraction(int(e[1]), int(e[2])))
    else:
        shape.append(repr(e))
    return out

def _kind_compatible(a, b):
    """real vs complex results are allowed to differ only if the complex one has zero imaginary part"""
    return a == b

def compare(h, f, get_R, p, t, exact, direct=False):
    """h, f: encoded history / pristine values.  get_R(): encoded pristine value
    at 2p+64 bits (called only when needed).  Returns (verdict, detail) with
    verdict in 'identical' | 'within' | 'inadmissible' | 'violation'."""
    hs, fs = strip_tags(h), strip_tags(f)
    if hs == fs:
        return 'identical', None
    hk, fk = h[0], f[0]
    # resource exhaustion is a property of the process, not of the library's state: never judged
    for e in (h, f):
        if e[0] == 'exc' and e[1] in ('MemoryError', 'RecursionError', 'SimBudget', 'RunTimeout'):
            return 'inadmissible', {'why': 'resource exhaustion (%s)' % e[1]}
    if hk == 'exc' or fk == 'exc':
        if hk == 'exc' and fk == 'exc':
            if h[1] == f[1]:
                return 'identical', None
            return 'violation', {'why': 'different exception', 'history': h[:3], 'pristine': f[:3]}
        return 'violation', {'why': 'raises where pristine returns' if hk == 'exc' else 'returns where pristine raises',
                             'history': codec.short(h, 200), 'pristine': codec.short(f, 200)}
    if exact:
        return 'violation', {'why': 'exact-class result differs', 'history': codec.short(hs, 300), 'pristine': codec.short(fs, 300)}
    hv, hsh = [], []
    fv, fsh = [], []
    flatten(h, hv, hsh); flatten(f, fv, fsh)
    if hsh != fsh:
        # non-numeric leaves (strings, bools, other objects) must be identical
        return 'violation', {'why': 'type/shape differs', 'history': codec.short(hs, 300), 'pristine': codec.short(fs, 300)}
    R = get_R()
    if (R is None or R[0] == 'exc') and direct:
        # a fixed-precision context (fp): the same float inputs must give the same float outputs whatever came
        # before, up to the low bits a better-filled cache may legitimately change - judged without a reference
        pairs = [(a, b) for a, b in zip(hv, fv)]
        if any(isinstance(a, str) or isinstance(b, str) for a, b in pairs):
            if any((isinstance(a, str) or isinstance(b, str)) and a != b for a, b in pairs):
                return 'violation', {'why': 'special value differs', 'history': codec.short(hs, 200), 'pristine': codec.short(fs, 200)}
            pairs = [(a, b) for a, b in pairs if not isinstance(a, str)]
        if not pairs:
            return 'identical', None
        norm = max(abs(b) for a, b in pairs)
        eh = max(abs(a - b) for a, b in pairs)
        if norm == 0:
            return ('violation', {'why': 'nonzero where pristine is zero'}) if eh else ('identical', None)
        if eh > norm * Fraction(2) ** (t + 2 - p):
            return 'violation', {'why': 'fixed-precision result differs from the pristine one beyond the low bits',
                                 'rel_diff_log2': _log2(eh / norm), 'bound_log2': t + 2 - p,
                                 'history': codec.short(hs, 300), 'pristine': codec.short(fs, 300)}
        return 'within', {'exact_mismatch': True}
    if R is None or R[0] == 'exc':
        return 'inadmissible', {'why': 'no high-precision reference'}
    rv, rsh = [], []
    flatten(R, rv, rsh)
    if rsh != fsh:
        return 'inadmissible', {'why': 'reference has another shape'}
    # specials must coincide
    for a, b, c in zip(hv, fv, rv):
        sa, sb, sc = isinstance(a, str), isinstance(b, str), isinstance(c, str)
        if sa or sb or sc:
            if not (sa and sb and sc and a == b == c):
                if sb and sc and b == c and not (sa and a == b):
                    return 'violation', {'why': 'special value differs', 'history': a if sa else 'finite', 'pristine': b}
                return 'inadmissible', {'why': 'special values in reference'}
    nums = [(a, b, c) for a, b, c in zip(hv, fv, rv) if not isinstance(c, str)]
    if not nums:
        return 'identical', None
    normR = max(abs(c) for a, b, c in nums)
    ef = max(abs(b - c) for a, b, c in nums)
    eh = max(abs(a - c) for a, b, c in nums)
    if normR == 0:
        if ef == 0 and eh != 0:
            return 'violation', {'why': 'nonzero where exact zero'}
        return 'inadmissible', {'why': 'zero reference'}
    # |f-R| <= 2^(t-p)|R|  (admissible) ; violation iff |h-R| > 2^(t+2-p)|R|
    lim_f = normR * Fraction(2) ** (t - p)
    if ef > lim_f:
        return 'inadmissible', {'why': 'pristine value outside its own accuracy bound'}
    lim_h = normR * Fraction(2) ** (t + 2 - p)
    if eh > lim_h:
        return 'violation', {'why': 'differs from the pristine value beyond the rounding-level bound',
                             'rel_err_history_log2': _log2(eh / normR), 'rel_err_pristine_log2': _log2(ef / normR) if ef else None,
                             'bound_log2': t + 2 - p, 'history': codec.short(hs, 200), 'pristine': codec.short(fs, 200)}
    return 'within', None

def _log2(q):
    q = Fraction(q)
    if q <= 0:
        return None
    return q.numerator.bit_length() - q.denominator.bit_length()
