"""Pristine-state snapshot and in-place restore of the mpmath package.

Why this exists: in this sandbox fork()/exit() and fresh-page faults are
serialised by the hypervisor (measured: ~12 k page faults/s machine-wide
under 16 forking workers; 16 workers gave the same throughput as 2).  A run
therefore does not execute in a child forked from a pristine template, but in
a long-lived worker whose mpmath state is put back to the pristine state
before (and after) every run.

"Pristine" = every mpmath submodule imported, nothing computed.  The snapshot
walks everything reachable from the mpmath modules (module dicts, classes,
functions with their attribute dicts / default arguments / closure cells,
instances of mpmath classes such as the three global contexts and their
quadrature-rule objects) and records every mutable container with its
contents.  restore() resets each recorded container *in place*, in recorded
order, so identities and dict iteration order are those of a new interpreter.
Containers created later are unreachable once their parents are restored.

This is an optimisation of the fork-based isolation, not a replacement of it:
  * replay, minimisation and the confirmation of every violation run in a
    freshly forked child of a process that computed nothing;
  * selftest/determinism.py checks that the event-log digests of in-process
    runs equal those of forked runs, in different orders and worker counts.
"""
import sys, types, importlib, pkgutil

_ATOM = (int, float, str, bytes, bool, complex, type(None), range, type(Ellipsis), type(NotImplemented))

def import_all():
    """Import every mpmath submodule (except tests) so that no module-level code
    runs lazily inside a simulated operation."""
    import mpmath
    for m in pkgutil.walk_packages(mpmath.__path__, 'mpmath.'):
        name = m.name
        if '.tests' in name or name.endswith('.tests'):
            continue
        try:
            importlib.import_module(name)
        except Exception:
            pass

def _is_mp_mod(name):
    return isinstance(name, str) and (name == 'mpmath' or name.startswith('mpmath.')) and '.tests' not in name

class Snapshot(object):
    def __init__(self):
        self.items = []       # (kind, obj, saved)
        self.seen = set()
        self.keep = []        # keep visited objects alive so ids stay unique
        self._take()

    # ------------------------------------------------------------------ walk
    def _take(self):
        mods = [m for n, m in sorted(sys.modules.items()) if _is_mp_mod(n) and m is not None]
        stack = list(reversed(mods))
        seen = self.seen
        items = self.items
        keep = self.keep
        while stack:
            o = stack.pop()
            t = type(o)
            if t in _ATOM:
                continue
            i = id(o)
            if i in seen:
                continue
            seen.add(i)
            keep.append(o)
            if t is dict:
                items.append(('dict', o, dict(o)))
                stack.extend(o.values())
            elif t is list:
                items.append(('list', o, list(o)))
                stack.extend(o)
            elif t is set:
                items.append(('set', o, set(o)))
            elif t is tuple or t is frozenset:
                stack.extend(o)
            elif t is types.ModuleType:
                if _is_mp_mod(getattr(o, '__name__', None)):
                    stack.append(vars(o))
            elif t is types.FunctionType:
                if _is_mp_mod(getattr(o, '__module__', None)) or _is_mp_mod(o.__globals__.get('__name__')):
                    stack.append(o.__dict__)
                    if o.__defaults__:
                        stack.extend(o.__defaults__)
                    if o.__kwdefaults__:
                        stack.append(o.__kwdefaults__)
                    if o.__closure__:
                        for c in o.__closure__:
                            try:
                                v = c.cell_contents
                            except ValueError:
                                continue
                            items.append(('cell', c, v))
                            stack.append(v)
            elif t is types.MethodType:
                stack.append(o.__func__); stack.append(o.__self__)
            elif t in (staticmethod, classmethod):
                stack.append(o.__func__)
            elif t is property:
                stack.extend([o.fget, o.fset, o.fdel])
            elif isinstance(o, type):
                if _is_mp_mod(getattr(o, '__module__', None)):
                    d = dict(vars(o))
                    items.append(('class', o, d))
                    stack.extend(d.values())
                    stack.extend(o.__mro__[1:])
            else:
                if _is_mp_mod(getattr(t, '__module__', None)):
                    d = getattr(o, '__dict__', None)
                    if type(d) is dict:
                        stack.append(d)
                    stack.append(t)
                    if isinstance(o, (list, dict, set)):      # subclasses of containers
                        pass

    # --------------------------------------------------------------- restore
    def restore(self):
        for kind, o, saved in self.items:
            if kind == 'dict':
                if len(o) != len(saved) or not _same_dict(o, saved):
                    o.clear()
                    o.update(saved)
            elif kind == 'list':
                if len(o) != len(saved) or not _same_seq(o, saved):
                    o[:] = saved
            elif kind == 'set':
                if o != saved:
                    o.clear(); o.update(saved)
            elif kind == 'cell':
                try:
                    cur = o.cell_contents
                except ValueError:
                    cur = _MISSING
                if cur is not saved:
                    o.cell_contents = saved
            elif kind == 'class':
                cur = vars(o)
                for k in [k for k in cur if k not in saved]:
                    try:
                        delattr(o, k)
                    except (AttributeError, TypeError):
                        pass
                for k, v in saved.items():
                    if cur.get(k, _MISSING) is not v:
                        try:
                            setattr(o, k, v)
                        except (AttributeError, TypeError):
                            pass

    def dirty(self):
        """Names of recorded containers that currently differ (diagnostics)."""
        out = []
        for kind, o, saved in self.items:
            if kind == 'dict' and (len(o) != len(saved) or not _same_dict(o, saved)):
                out.append(('dict', len(saved), len(o), sorted(map(str, set(o) ^ set(saved)))[:5]))
            elif kind == 'list' and (len(o) != len(saved) or not _same_seq(o, saved)):
                out.append(('list', len(saved), len(o)))
            elif kind == 'cell':
                try:
                    if o.cell_contents is not saved:
                        out.append(('cell',))
                except ValueError:
                    pass
        return out

_MISSING = object()

def _same_dict(o, saved):
    # identity comparison, in order: never calls user-level __eq__ on values
    for (k1, v1), (k2, v2) in zip(o.items(), saved.items()):
        if k1 is not k2 and k1 != k2:
            return False
        if v1 is not v2:
            return False
    return True

def _same_seq(o, saved):
    for a, b in zip(o, saved):
        if a is not b:
            return False
    return True

_SNAP = None

def snapshot():
    """Take (once) the process-wide pristine snapshot.  Must be called before
    anything is computed with mpmath in this process."""
    global _SNAP
    if _SNAP is None:
        import_all()
        _SNAP = Snapshot()
    return _SNAP

def restore():
    if _SNAP is None:
        raise RuntimeError('no pristine snapshot taken')
    _SNAP.restore()
