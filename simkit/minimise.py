"""Delta debugging over the recorded step list, then per-step simplification.

A candidate is accepted only if a fresh child reproduces a violation of the
same class (check, entry).  The last act is a full re-run of the result; a
program that does not reproduce is never emitted (the unminimised one is)."""
import time, json

def _copy(x):
    return json.loads(json.dumps(x))

def _has(machine, prog, cls):
    res = machine.run(_copy(prog), mode='fork')
    if res.get('status') == 'inconclusive':
        return None
    for v in res.get('violations', []):
        if (v.get('check'), v.get('entry')) == cls:
            return res
    return None

def minimise(machine, prog, violation, budget_s=120, max_evals=400):
    cls = (violation.get('check'), violation.get('entry'))
    t0 = time.time()
    evals = [0]
    def ok(p):
        if time.time() - t0 > budget_s or evals[0] >= max_evals:
            return None
        evals[0] += 1
        return _has(machine, p, cls)
    best = _copy(prog)
    r = ok(best)
    if r is None:
        return prog                      # does not even reproduce: keep the original
    if r.get('program'):
        best = _copy(r['program'])       # resolved faults, concretised refs
        best['seed'] = prog.get('seed'); best['property'] = prog.get('property')
    # truncate after the violating step
    sid = None
    for v in r.get('violations', []):
        if (v.get('check'), v.get('entry')) == cls:
            sid = v.get('step')
            break
    steps = best['steps']
    if sid is not None:
        for idx, s in enumerate(steps):
            if _contains_id(s, sid):
                cand = _copy(best); cand['steps'] = steps[:idx + 1]
                if ok(cand):
                    best = cand
                break
    # ddmin over top-level steps
    n = 2
    steps = best['steps']
    while len(steps) >= 2:
        chunk = max(1, len(steps) // n)
        reduced = False
        i = 0
        while i < len(steps):
            cand_steps = steps[:i] + steps[i + chunk:]
            if cand_steps:
                cand = _copy(best); cand['steps'] = cand_steps
                if ok(cand):
                    best = cand; steps = best['steps']
                    n = max(n - 1, 2)
                    reduced = True
                    continue
            i += chunk
        if not reduced:
            if chunk == 1:
                break
            n = min(len(steps), n * 2)
        if time.time() - t0 > budget_s:
            break
    # flatten / simplify: machine-specific candidates
    changed = True
    rounds = 0
    while changed and rounds < 3 and time.time() - t0 < budget_s:
        changed = False
        rounds += 1
        for cand in machine.simplify(best):
            if ok(cand):
                best = cand
                changed = True
                break
    final = _has(machine, best, cls)
    if final is None:
        return prog
    best['minimised'] = {'evals': evals[0], 'from_steps': len(prog.get('steps', [])), 'to_steps': len(best['steps'])}
    return best

def _contains_id(step, sid):
    if step.get('id') == sid:
        return True
    for s in step.get('body', []) or []:
        if _contains_id(s, sid):
            return True
    return False

def generic_simplify(prog):
    """Candidates: lower precisions towards 53, unwrap `with` bodies, drop
    faults, drop kwargs, replace arguments by simpler literals."""
    steps = prog['steps']
    for i, s in enumerate(steps):
        if s.get('kind') == 'with':
            c = _copy(prog)
            c['steps'] = steps[:i] + _copy(s.get('body', [])) + steps[i + 1:]
            yield c
            if s.get('body'):
                for j in range(len(s['body'])):
                    c = _copy(prog)
                    c['steps'][i]['body'] = s['body'][:j] + s['body'][j + 1:]
                    yield c
        if s.get('kind') in ('setprec',) and s.get('value', {}).get('t') == 'int' and s['value']['v'] != 53:
            c = _copy(prog)
            c['steps'][i]['value'] = {'t': 'int', 'v': 53}
            yield c
        if s.get('kind') in ('setdps',):
            c = _copy(prog)
            c['steps'][i] = dict(s, kind='setprec', value={'t': 'int', 'v': 53})
            yield c
        if s.get('kwargs'):
            for k in list(s['kwargs']):
                c = _copy(prog)
                del c['steps'][i]['kwargs'][k]
                yield c
        if s.get('fault') and s['fault'].get('k', 1) > 1:
            c = _copy(prog)
            c['steps'][i]['fault']['k'] = 1
            yield c
        if s.get('args'):
            for j, a in enumerate(s['args']):
                if a.get('t') in ('mpf', 'float', 'str') :
                    c = _copy(prog)
                    c['steps'][i]['args'][j] = {'t': 'int', 'v': 2}
                    yield c
                elif a.get('t') == 'mpc':
                    c = _copy(prog)
                    c['steps'][i]['args'][j] = {'t': 'complex', 'v': [(1.0).hex(), (1.0).hex()]}
                    yield c
