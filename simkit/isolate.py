"""Run isolation: every simulated run / reference evaluation starts from the
pristine state.

mode 'fork'   : a child forked from this (pristine) process runs fn and exits.
mode 'inproc' : this process restores the pristine snapshot, runs fn, restores
                again (see simkit/pristine.py for why and for the safeguards).

VERIF_ISOLATION selects the mode for batches (default inproc).  Replay,
minimisation and confirmation of violations always use fork.
"""
import os, signal, traceback
from simkit import proc, pristine

MODE = os.environ.get('VERIF_ISOLATION', 'inproc')

class RunTimeout(BaseException):
    pass

def _on_alarm(signum, frame):
    raise RunTimeout()

def call(fn, args=(), timeout=120.0, mode=None):
    """-> ('ok', value) | ('timeout', None) | ('crash', text)"""
    mode = mode or MODE
    if mode == 'fork':
        return proc.call_in_child(fn, args, timeout=timeout)
    pristine.restore()
    old = signal.signal(signal.SIGALRM, _on_alarm)
    # repeating timer: a library `except:` may swallow the first delivery
    signal.setitimer(signal.ITIMER_REAL, timeout, 1.0)
    try:
        try:
            val = fn(*args)
            return ('ok', val)
        finally:
            signal.setitimer(signal.ITIMER_REAL, 0)
    except RunTimeout:
        return ('timeout', None)
    except BaseException as e:
        return ('crash', ''.join(traceback.format_exception(type(e), e, e.__traceback__))[-4000:])
    finally:
        signal.setitimer(signal.ITIMER_REAL, 0)
        signal.signal(signal.SIGALRM, old)
        _reset_monitor()
        pristine.restore()

def _reset_monitor():
    from simkit import monitor
    m = monitor.Monitor._instance
    if m is not None:
        m.active = False
        m._set_lines(False)
