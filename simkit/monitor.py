"""Fault points and the step clock (sys.monitoring, PEP 669).

One Monitor per simulated process.  It watches code objects of the mpmath
package only (everything else returns DISABLE once and is never seen again).

* PY_START events are the *step clock*: they are counted inside operations,
  carry the per-operation budget (F6) and are the addresses of primitive
  faults (F2: "the k-th eligible library function entered inside the
  operation raises").
* LINE events are the addresses of interrupts (F3).  They are switched on
  only for operations that carry (or are being dry-run for) an F3 fault.

Nothing here draws from a PRNG or reads a clock.
"""
import sys, os, ast

mon = sys.monitoring
TID = mon.DEBUGGER_ID
EV = mon.events

class SimFault(BaseException):
    """Injected primitive fault that no library `except Exception` can absorb."""
class SimInterrupt(BaseException):
    """Injected interrupt (a KeyboardInterrupt at an arbitrary instant)."""
class SimBudget(BaseException):
    """Step-clock budget of one operation exhausted (F6)."""
class UserFault(Exception):
    """Raised by a user callback (F1)."""

# restore machinery: a fault raised here *is* a fault inside the finally clause
RESTORE_FUNCS = frozenset(['_set_prec', '_set_dps', 'prec_to_dps', 'dps_to_prec', '__exit__'])

_MUTATORS = frozenset(['append', 'update', 'pop', 'setdefault', 'clear', 'extend', 'insert',
                       'remove', 'popitem', 'sort', 'reverse'])

def store_lines_of_file(path):
    """Lines that mutate state outliving the frame: attribute/subscript
    assignment, assignment to a global/nonlocal name, mutator method calls.
    Used only to steer interrupts; no oracle depends on it."""
    try:
        with open(path, 'rb') as f:
            tree = ast.parse(f.read(), path)
    except Exception:
        return frozenset()
    lines = set()
    def targets_store(t):
        if isinstance(t, (ast.Attribute, ast.Subscript)):
            return True
        if isinstance(t, (ast.Tuple, ast.List)):
            return any(targets_store(x) for x in t.elts)
        if isinstance(t, ast.Starred):
            return targets_store(t.value)
        return False
    def visit(node, globs):
        if isinstance(node, (ast.FunctionDef, ast.AsyncFunctionDef, ast.Lambda)):
            g = set()
            for n in ast.walk(node):
                if isinstance(n, (ast.Global, ast.Nonlocal)):
                    g.update(n.names)
            globs = g
        if isinstance(node, (ast.Assign, ast.AugAssign, ast.AnnAssign)):
            tg = node.targets if isinstance(node, ast.Assign) else [node.target]
            for t in tg:
                if targets_store(t):
                    lines.add(node.lineno)
                elif isinstance(t, ast.Name) and t.id in globs:
                    lines.add(node.lineno)
        elif isinstance(node, ast.Delete):
            for t in node.targets:
                if targets_store(t):
                    lines.add(node.lineno)
        elif isinstance(node, ast.Call):
            f = node.func
            if isinstance(f, ast.Attribute) and f.attr in _MUTATORS:
                lines.add(node.lineno)
        for c in ast.iter_child_nodes(node):
            visit(c, globs)
    visit(tree, set())
    return frozenset(lines)


class Monitor(object):
    _instance = None

    @classmethod
    def get(cls, pkg_dir):
        """Process-wide monitor (sys.monitoring tool ids are per process)."""
        if cls._instance is None:
            cls._instance = cls(pkg_dir)
            cls._instance.install()
        return cls._instance

    def __init__(self, pkg_dir):
        self.pkg = pkg_dir
        self.tests = os.path.join(pkg_dir, 'tests') + os.sep
        self._store_cache = {}
        self._elig = {}      # code -> bool (PY_START eligibility)
        self.installed = False
        self._lines_on = False
        self.reset_op()
        self.total_starts = 0
        self.total_lines = 0

    # -- lifecycle ---------------------------------------------------------
    def install(self):
        if self.installed:
            return
        mon.use_tool_id(TID, 'simkit')
        mon.register_callback(TID, EV.PY_START, self._on_start)
        mon.register_callback(TID, EV.LINE, self._on_line)
        mon.register_callback(TID, EV.PY_RETURN, self._on_leave)
        mon.register_callback(TID, EV.PY_UNWIND, self._on_unwind)
        mon.register_callback(TID, EV.PY_YIELD, self._on_leave)
        mon.register_callback(TID, EV.PY_RESUME, self._on_resume)
        mon.set_events(TID, EV.PY_START)
        self.installed = True
        self._lines_on = False

    def _set_lines(self, on):
        if on != self._lines_on:
            mon.set_events(TID, (EV.PY_START | EV.LINE | EV.PY_RETURN | EV.PY_UNWIND | EV.PY_YIELD
                                 | EV.PY_RESUME) if on else EV.PY_START)
            self._lines_on = on

    def reset_op(self):
        self.active = False
        self.n_start = 0
        self.n_line = 0
        self.budget = None
        self.f2_k = None
        self.f2_exc = None
        self.f3_k = None
        self.f3_site = None       # (relfile, line, occ)
        self._site_seen = 0
        self._armed = None        # depth at which the store line ran
        self.depth = 0
        self.fired = None         # description of the fired fault
        self.collect = False
        self.sites = None
        self._prev = None
        self.budget_hit = False

    # -- operation bracket ---------------------------------------------------
    def begin(self, budget=None, f2=None, f3=None, collect=False, lines=False):
        """f2 = (k, exc_factory) ; f3 = {'k': n} or {'site': (file, line, occ)}"""
        self.reset_op()
        self.budget = budget
        if f2:
            self.f2_k, self.f2_exc = f2
        if f3:
            if 'site' in f3 and f3['site']:
                self.f3_site = tuple(f3['site'])
            else:
                self.f3_k = f3['k']
        self.collect = collect
        if collect:
            self.sites = {}
        self._set_lines(bool(f3) or lines)
        self.active = True

    def end(self):
        self.active = False
        self.total_starts += self.n_start
        self.total_lines += self.n_line
        self._set_lines(False)
        return {'starts': self.n_start, 'lines': self.n_line, 'fired': self.fired,
                'budget_hit': self.budget_hit}

    # -- callbacks -----------------------------------------------------------
    def _eligible(self, code):
        e = self._elig.get(code)
        if e is None:
            fn = code.co_filename
            e = fn.startswith(self.pkg) and not fn.startswith(self.tests)
            if e and (code.co_name in RESTORE_FUNCS or code in self._restore_codes()):
                e = 2   # counted by the clock, never a fault address
            self._elig[code] = e
        return e

    def _restore_codes(self):
        """Code objects of the prec/dps property *getters*: library code restores
        precision with `finally: ctx.prec -= extra`, which reads the property
        inside the finally clause - a fault there is a fault in the restore
        clause itself (outside C11's quantifier), like the setters."""
        rc = getattr(self, '_rc', None)
        if rc is None:
            rc = set()
            try:
                import mpmath
                for ctx in (mpmath.mp, mpmath.iv, mpmath.fp):
                    for attr in ('prec', 'dps'):
                        for klass in type(ctx).__mro__:
                            p = klass.__dict__.get(attr)
                            if isinstance(p, property):
                                for fn in (p.fget, p.fset):
                                    if fn is not None and hasattr(fn, '__code__'):
                                        rc.add(fn.__code__)
            except Exception:
                pass
            self._rc = rc
        return rc

    def _rel(self, code):
        return code.co_filename[len(self.pkg):]

    def _on_start(self, code, off):
        e = self._eligible(code)
        if not e:
            return mon.DISABLE
        if not self.active:
            return
        self.depth += 1
        if e == 2:
            return
        self.n_start += 1
        n = self.n_start
        if n == self.f2_k:
            self.fired = {'kind': 'F2', 'k': n, 'file': self._rel(code), 'func': code.co_name,
                          'line': code.co_firstlineno}
            self.f2_k = None
            raise self.f2_exc()
        if self.budget is not None and n > self.budget and not self.budget_hit:
            self.budget_hit = True
            self.fired = {'kind': 'F6', 'k': n, 'file': self._rel(code), 'func': code.co_name,
                          'line': code.co_firstlineno}
            raise SimBudget('step budget %d exhausted' % self.budget)

    def _on_leave(self, code, *a):
        if not self._eligible(code):
            return mon.DISABLE
        if self.active:
            self.depth -= 1

    def _on_unwind(self, code, *a):      # PY_UNWIND cannot be disabled per code object
        if self.active and self._eligible(code):
            self.depth -= 1

    def _on_resume(self, code, off):
        if not self._eligible(code):
            return mon.DISABLE
        if self.active:
            self.depth += 1

    def _stores(self, code):
        fn = code.co_filename
        s = self._store_cache.get(fn)
        if s is None:
            s = self._store_cache[fn] = store_lines_of_file(fn)
        return s

    def _on_line(self, code, line):
        e = self._eligible(code)
        if not e:
            return mon.DISABLE
        if not self.active:
            return
        self.n_line += 1
        n = self.n_line
        if self.collect:
            if line in self._stores(code):
                key = (self._rel(code), line)
                lst = self.sites.get(key)
                if lst is None:
                    self.sites[key] = [1, code.co_name]
                else:
                    lst[0] += 1
            return
        if self.f3_k is not None:
            if n == self.f3_k:
                self.f3_k = None
                self.fired = {'kind': 'F3', 'k': n, 'file': self._rel(code), 'func': code.co_name,
                              'line': line, 'after_store': False}
                raise SimInterrupt('interrupt at line event %d' % n)
            return
        st = self.f3_site
        if st is not None:
            # the interrupt lands on the first line event that runs *after the
            # store line has completed*: same frame or a caller (depth <= the
            # store's depth), never inside a callee of the store line itself
            if self._armed is not None:
                if self.depth <= self._armed:
                    self._armed = None
                    self.f3_site = None
                    self.fired = {'kind': 'F3', 'k': n, 'file': self._rel(code), 'func': code.co_name,
                                  'line': line, 'after_store': True, 'store': [st[0], st[1]], 'occ': st[2]}
                    raise SimInterrupt('interrupt after store %s:%d #%d' % (st[0], st[1], st[2]))
                return
            if line == st[1] and self._rel(code) == st[0]:
                self._site_seen += 1
                if self._site_seen == st[2]:
                    self._armed = self.depth
