"""Value codec: mpmath / Python values <-> JSON-able lists.

Event logs and replay files contain values, never addresses or timings.
Encoded forms are plain lists/strings/ints so that they can be hashed,
pickled across fork boundaries, compared in a process that never computes
with mpmath, and written to replay files.
"""
from fractions import Fraction
import re

_ADDR = re.compile(r' at 0x[0-9a-fA-F]+')

def enc_raw_mpf(t):
    sign, man, exp, bc = t
    return ['mpf', int(sign), '%x' % int(man), int(exp), int(bc)]

def dec_raw_mpf(e):
    return (e[1], int(e[2], 16), e[3], e[4])

def encode(x, depth=0):
    """Encode a result.  Order of tests matters (bool before int, ...)."""
    if depth > 6:
        return ['other', type(x).__name__, '<deep>']
    if x is None:
        return ['none']
    t = type(x)
    if t is bool:
        return ['bool', bool(x)]
    if t is int:
        return ['int', str(x)]
    if t is float:
        return ['float', x.hex()]
    if t is complex:
        return ['complex', x.real.hex(), x.imag.hex()]
    if t is str:
        return ['str', x if len(x) < 400 else x[:400] + '...']
    if hasattr(x, '_mpf_') and type(x._mpf_) is tuple:
        e = enc_raw_mpf(x._mpf_)
        e.append(_ctxtag(x))
        return e
    if hasattr(x, '_mpc_'):
        re_, im_ = x._mpc_
        return ['mpc', enc_raw_mpf(re_), enc_raw_mpf(im_), _ctxtag(x)]
    if hasattr(x, '_mpi_'):
        a, b = x._mpi_
        return ['ivmpf', enc_raw_mpf(a), enc_raw_mpf(b)]
    if hasattr(x, '_mpci_'):
        (a, b), (c, d) = x._mpci_
        return ['ivmpc', enc_raw_mpf(a), enc_raw_mpf(b), enc_raw_mpf(c), enc_raw_mpf(d)]
    if hasattr(x, '_mpq_'):
        p, q = x._mpq_
        return ['mpq', str(p), str(q)]
    if t is Fraction:
        return ['frac', str(x.numerator), str(x.denominator)]
    if t in (list, tuple):
        return ['list' if t is list else 'tuple', [encode(v, depth + 1) for v in x]]
    if t is dict:
        try:
            items = sorted(x.items(), key=lambda kv: repr(kv[0]))
        except Exception:
            items = list(x.items())
        return ['dict', [[encode(k, depth + 1), encode(v, depth + 1)] for k, v in items]]
    name = t.__name__
    if hasattr(x, 'rows') and hasattr(x, 'cols') and hasattr(x, 'tolist') and 'matrix' in name:
        try:
            rows = x.tolist()
            return ['matrix', x.rows, x.cols, [encode(v, depth + 1) for r in rows for v in r], name]
        except BaseException:
            return ['other', name, '<matrix unreadable>']
    if isinstance(x, BaseException):
        return enc_exc(x)
    try:
        r = repr(x)
    except BaseException:
        r = '<repr failed>'
    return ['other', name, _ADDR.sub('', r)[:200]]

def _ctxtag(x):
    """'mp' for the global mp context's types, 'clone' for any other mp-like
    context, so that results of the wrong context's type are visible."""
    ctx = getattr(type(x), 'context', None)
    if ctx is None:
        return '?'
    return getattr(ctx, '_sim_name', 'ctx')

def enc_exc(e):
    return ['exc', type(e).__name__, _ADDR.sub('', str(e))[:200]]

# --- numeric views used by oracles (no mpmath here) -----------------------

SPECIAL = {(0, -123, -1): 'nan', (0, -456, -2): '+inf', (0, -789, -3): '-inf'}

def mpf_kind(e):
    """'zero' | 'nan' | '+inf' | '-inf' | 'finite' for an encoded raw mpf."""
    man = int(e[2], 16)
    if man:
        return 'finite'
    if e[3] == 0:
        return 'zero'
    return SPECIAL.get((man, e[3], e[4]), 'special')

def mpf_fraction(e):
    """Exact rational value of an encoded finite/zero mpf."""
    man = int(e[2], 16)
    if e[1]:
        man = -man
    exp = e[3]
    if exp >= 0:
        return Fraction(man << exp)
    return Fraction(man, 1 << (-exp))

def mpf_bits(e):
    """mantissa bit length of an encoded mpf (0 for zero/specials)."""
    return int(e[2], 16).bit_length()

def numbers_in(e, out=None):
    """All encoded raw mpfs inside an encoded value (mpf, both parts of mpc,
    recursively through containers and matrices)."""
    if out is None:
        out = []
    k = e[0]
    if k == 'mpf':
        out.append(e)
    elif k == 'mpc':
        out.append(e[1]); out.append(e[2])
    elif k in ('list', 'tuple'):
        for v in e[1]:
            numbers_in(v, out)
    elif k == 'matrix':
        for v in e[3]:
            numbers_in(v, out)
    elif k == 'dict':
        for kk, vv in e[1]:
            numbers_in(vv, out)
    return out

def short(e, n=120):
    s = repr(e)
    return s if len(s) <= n else s[:n] + '...'
