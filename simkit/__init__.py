"""simkit - deterministic simulation with fault injection for mpmath (see DESIGN.md)."""
