"""Compact view of replay files: tools/showreplay.py [files or globs...]"""
import json, sys, glob, math

def arg(a):
    t = a.get('t')
    if t == 'mpf':
        v = a['v']; man = int(v[1], 16)
        try:
            x = math.ldexp(man, v[2]) * (-1 if v[0] else 1)
            xs = '%.6g' % x
        except OverflowError:
            xs = 'big'
        return 'mpf(%s,%db)' % (xs, man.bit_length())
    if t == 'mpc':
        return 'mpc(%s,%s)' % (arg({'t': 'mpf', 'v': a['v'][0]}), arg({'t': 'mpf', 'v': a['v'][1]}))
    if t == 'float':
        return 'float(%g)' % float.fromhex(a['v'])
    if t == 'complex':
        return 'complex(%g,%g)' % (float.fromhex(a['v'][0]), float.fromhex(a['v'][1]))
    if t in ('int', 'str', 'bool', 'const', 'attr'):
        return '%s:%s' % (t, a['v'])
    if t in ('list', 'tuple'):
        return '[' + ','.join(arg(x) for x in a['v']) + ']'
    if t == 'cb':
        return 'cb:%s%s%s' % (a['name'], a.get('p'), ('!' + json.dumps(a['shim'])) if a.get('shim') else '')
    if t == 'matrix':
        return 'matrix%dx%d' % (len(a['v']), len(a['v'][0]) if a['v'] else 0)
    if t == 'obj':
        return 'obj#%s' % a['i']
    if t == 'ref':
        return 'ref#%s' % a['i']
    return json.dumps(a)[:60]

def step(s, ind='  '):
    k = s.get('kind')
    if k in ('setprec', 'setdps'):
        print('%s%s %s.%s = %s' % (ind, s.get('id'), s.get('actor'), k[3:], arg(s['value'])))
    elif k in ('call', 'probe'):
        kw = ' '.join('%s=%s' % (a, arg(b)) for a, b in sorted((s.get('kwargs') or {}).items()))
        f = s.get('fault')
        print('%s%s %s %s(%s) %s%s%s' % (ind, s.get('id'), s.get('actor'), s.get('op'), ', '.join(arg(a) for a in s.get('args', [])), kw,
                                     (' @prec=%s' % s['prec']) if 'prec' in s else '',
                                     (' FAULT ' + json.dumps(f)) if f else ''))
    elif k == 'stmt':
        print('%s%s stmt %r%s' % (ind, s.get('id'), s.get('src', '')[:120], (' FAULT ' + json.dumps(s['fault'])) if s.get('fault') else ''))
    elif k == 'with':
        print('%s%s with %s.%s(%s)%s%s:' % (ind, s.get('id'), s.get('actor'), s.get('mgr'), s.get('arg'),
                                        ' [same object %s]' % s['mgr_obj'] if s.get('mgr_obj') else '', ' raises' if s.get('raise') else ''))
        for b in s.get('body', []):
            step(b, ind + '    ')
    else:
        print('%s%s %s' % (ind, s.get('id'), json.dumps({a: b for a, b in s.items() if a != 'id'})[:160]))

def main():
    files = []
    for a in sys.argv[1:]:
        files.extend(sorted(glob.glob(a)))
    for f in files:
        p = json.load(open(f))
        v = p.get('violation') or {}
        print('%s: %s %s / %s  minimised=%s' % (f.split('/')[-1], p.get('property'), v.get('check'), v.get('entry'), p.get('minimised')))
        d = v.get('detail')
        if d:
            print('  detail: ' + json.dumps({k: x for k, x in d.items() if k != 'result'}, sort_keys=True)[:400])
        for s in p.get('steps', []):
            step(s)

if __name__ == '__main__':
    main()
