"""strip resolved fault addresses from regress files so that faults are re-placed against the current tree on every replay"""
import json, sys
def walk(steps):
    for s in steps:
        f = s.get('fault')
        if f and 'u' in f:
            s['fault'] = {k: v for k, v in f.items() if k in ('kind', 'u', 'placement', 'exc', 'slot', 'act', 'step')}
        for sp in json.loads(json.dumps(s.get('args', []))):
            pass
        if s.get('body'):
            walk(s['body'])
for path in sys.argv[1:]:
    p = json.load(open(path))
    walk(p['steps'])
    # shims written by resolution
    def strip(o):
        if isinstance(o, dict):
            if o.get('t') == 'cb':
                o.pop('shim', None)
            for v in o.values():
                strip(v)
        elif isinstance(o, list):
            for v in o:
                strip(v)
    strip(p['steps'])
    json.dump(p, open(path, 'w'), indent=1, sort_keys=True)
    print('unresolved', path)
