#!/bin/sh
# tools/try_seeded_scratch.sh <worktree-id> <PROP>
# Like try_seeded.sh, but the check runs against a scratch copy (selftest/mutants.py), so /repo is never touched
# and several changes can be tried at once.  The test-suite runs in the worktree in the background (tests.txt).
id=$1; prop=$2
wt=/tmp/wt/$id
out=/verif/seeded/$id
mkdir -p $out
cd $wt || exit 2
git diff > $out/patch.diff
cp demo.py $out/demo.py 2>/dev/null
echo "== patch: $(wc -l < $out/patch.diff) lines, files: $(git diff --name-only | tr '\n' ' ')"
echo "== demo with change:"; timeout 600 /venv/bin/python demo.py > $out/demo_with.txt 2>&1; echo "exit=$?"; tail -3 $out/demo_with.txt | cut -c1-200
git apply -R $out/patch.diff
echo "== demo without change:"; timeout 600 /venv/bin/python demo.py > $out/demo_without.txt 2>&1; echo "exit=$?"; tail -2 $out/demo_without.txt | cut -c1-200
git apply $out/patch.diff
( timeout 1800 /venv/bin/python -m pytest -q -p no:cacheprovider --timeout=900 mpmath > $out/tests.txt 2>&1; echo "exit=$?" >> $out/tests.txt ) &
[ -f $out/meta.json ] || printf '{"id": "%s", "property": "%s"}\n' $id $prop > $out/meta.json
cd /verif
/venv/bin/python selftest/mutants.py $id > $out/check.txt 2>&1; echo "mutants exit=$?"
cat $out/check.txt | cut -c1-300
wait
tail -2 $out/tests.txt
