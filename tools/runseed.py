"""tools/runseed.py <PROP> <run-seed> [tier]: generate the program of one run seed and run it
in-process and in a forked pristine child; print the violation classes of both (diagnosis of
'seen in-process but not reproduced' reports)."""
import sys, os, json, random
sys.path.insert(0, os.path.dirname(os.path.dirname(os.path.abspath(__file__))))
from simkit import env
env.bootstrap()
import importlib

def main():
    prop, seed = sys.argv[1], int(sys.argv[2])
    tier = sys.argv[3] if len(sys.argv) > 3 else 'quick'
    m = importlib.import_module('machines.' + prop.lower()).Machine()
    m.setup(tier, 1, replay=True)
    prog = m.generate(random.Random(seed), tier)
    prog['seed'] = seed; prog['property'] = prop
    for mode in ('inproc', 'fork', 'inproc'):
        res = m.run(json.loads(json.dumps(prog)), mode=mode)
        print(mode, res.get('status'), res.get('digest'))
        for v in res.get('violations', []):
            print('   ', v.get('check'), v.get('entry'), json.dumps(v.get('detail'), sort_keys=True)[:400])

if __name__ == '__main__':
    main()
