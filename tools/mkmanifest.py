"""Regenerate MANIFEST.json from the table below (keeps it valid at all times).
usage: python3-vt tools/mkmanifest.py"""
import json, os, sys

HERE = os.path.dirname(os.path.dirname(os.path.abspath(__file__)))

CLAIMED = {
    'C10': dict(
        text=('Seeded search over precision histories (value pool with operands older and wider than the current precision, '
              'first-call vs cached-call, keyword precisions) with the oracle "mantissa bit length of every returned number '
              '<= precision in force". Exploration: a clean batch is evidence, not proof; the bit-pattern facet is sampled, not targeted.'),
        note='Trusted: the catalogue of covered entry points and exemptions (ops/catalogue.py), sys.monitoring, CPython. Fault-free branch only.',
        technique='deterministic simulation of seeded precision histories (no faults), bit-length oracle',
        design='DESIGN.md section 3 C10'),
    'C11': dict(
        text=('Seeded search over programs of public calls, doc-example statements, precision-manager blocks and generator protocols '
              'on mp/clone/iv/fp x crash points (callback raises, k-th internal library function raises, generator closed/dropped, '
              'with-body raises, step budget) x starting precisions (mostly not images of an integer dps). Oracle: an independent '
              'reference model of (prec, dps) per context checked after every step and inside manager bodies, plus effective == '
              'reported precision. Every run is executed fault-free (pass A) and fault-injected (pass B); 25% of the runs sweep ten '
              'consecutive catalogue entries at non-image precisions and 15% enumerate the crash points of one operation on an even '
              'grid (<= 32 internal entries with rotating exception types, <= 12 callback invocations). Exploration level: '
              'sampling, with distinct (entry point, fault site) pairs reported.'),
        note=('Trusted: the precision model transcription (simkit/model.py), sys.monitoring fault delivery, the in-process pristine '
              'restore (validated against fork isolation by selftest/determinism.py; every violation is re-confirmed in a freshly '
              'forked pristine child before it is reported). Faults inside the restore machinery itself are outside the quantifier.'),
        technique='deterministic simulation with seeded fault injection (sys.monitoring crash points), reference precision model',
        design='DESIGN.md section 3 C11'),
    'C17': dict(
        text=('Seeded search over orders of constant requests (13 constants, 4 entry points incl. interval constants, 5 rounding modes, '
              'clone contexts, noise operations that request constants internally) with line-granular interrupts placed uniformly, late or '
              'store-adjacent inside requests; oracle = independent big-integer implementations / pristine-state values; plus one '
              'exhaustive fault-free sweep over p = 1..Pmax x rounding modes for the six correctly-rounded constants.'),
        note='Trusted: own big-integer oracle (ops/constoracle.py), pristine restore (see C11 note), sys.monitoring LINE events.',
        technique='deterministic simulation of request histories with line-granular interrupt injection; independent big-integer oracle',
        design='DESIGN.md section 3 C17'),
    'C33': dict(
        text=('Seeded search over histories of evaluations at random precisions, matrix mutations, context switches and calls aborted by '
              'line-granular interrupts / raising callbacks / re-entrant callbacks, followed by probes compared with the same probe in the '
              'pristine state (tolerance classes from the accuracy properties, exact equality for exact classes). 20% of the runs '
              'enumerate the crash points of one operation: an interrupt right after every state-mutating line it executes (first and '
              'last occurrence, <= 40 lines), each followed by the same call again and by probes; 30% are ladder programs (one entry point, the same arguments, '
              'precisions of one 32-bit bucket / inside the 1.05p+10 and 1.2p reuse windows / near neighbours, every rung judged); '
              'memoized user functions (number-, tuple-, list-, matrix-valued) are aborted and retried and the objects they and '
              'LU_decomp return are edited by the caller; results of the fp context are compared directly with the pristine value.'),
        note='Trusted: pristine restore = state of a new interpreter (validated by selftest/determinism.py and fork confirmation); mpmath judges itself across histories (not an accuracy oracle).',
        technique='deterministic simulation of call histories with crash-point injection; pristine-state differential oracle',
        design='DESIGN.md section 3 C33'),
    'C34': dict(
        text=('Seeded search over evaluation orders, precision changes and aborted segment extensions of odefun interpolants for problems '
              'with closed forms; oracle = closed form within the property\'s own bound and an in-order pristine solver; several solvers per run, '
              'initial-value containers kept and edited by the caller after the odefun call.'),
        note='Trusted: closed forms evaluated by mpmath elementary functions at doubled precision; pristine restore.',
        technique='deterministic simulation of evaluation orders with interrupt/callback fault injection; closed-form + in-order reference',
        design='DESIGN.md section 3 C34'),
    'C38': dict(
        text=('Seeded search over interleavings of several contexts\' programs (mp, two clones, iv, fp) including re-entrant calls from '
              'callbacks; oracle = each context\'s settings equal its model after every step, result types belong to the calling context, '
              'and each context\'s projection equals its solo run in the pristine state; contexts are made to meet at equal precisions, '
              'numbers owned by one mp-type context are handed to functions of another, and the routines that reach into another '
              'context (ctx._iv/_fp/_mp) weigh more in the entry choice.'),
        note='Trusted: pristine restore; solo projections are mpmath judging itself; tolerance classes as for C33.',
        technique='deterministic simulation of seeded context interleavings (incl. re-entrancy); solo-projection oracle',
        design='DESIGN.md section 3 C38'),
}

BUILT = [l.strip() for l in open(os.path.join(HERE, 'tools', 'built.txt')) if l.strip()]

def main():
    m = json.load(open(os.path.join(HERE, 'MANIFEST.json')))
    na = [x for x in m['not_applicable'] if x['property_id'] not in CLAIMED]
    checks = []
    for p in sorted(CLAIMED):
        c = CLAIMED[p]
        if p in BUILT:
            checks.append({
                'property_id': p,
                'quick_cmd': 'timeout 900 ./check %s --tier quick' % p,
                'thorough_cmd': 'timeout 3000 ./check %s --tier thorough' % p,
                'evidence_file': '/verif/evidence/%s.json' % p,
                'replay_cmd_template': './check %s --replay {path}' % p,
                'engine': 'simkit',
                'level_claimed': {'category': 'exploration', 'text': c['text'], 'design_ref': c['design']},
                'level_note': c['note'],
                'technique': c['technique'],
            })
        else:
            na.append({'property_id': p, 'reason': 'claimed in DESIGN.md; check under construction (entry moves to checks once the machine is committed)'})
    na.sort(key=lambda d: d['property_id'])
    m['checks'] = checks
    m['not_applicable'] = na
    m['engines'][0]['serves_properties'] = [c['property_id'] for c in checks]
    json.dump(m, open(os.path.join(HERE, 'MANIFEST.json'), 'w'), indent=1)
    import jsonschema
    jsonschema.validate(m, json.load(open('/root/.vp/MANIFEST.schema.json')))
    print('MANIFEST ok: checks=%s' % [c['property_id'] for c in checks])

if __name__ == '__main__':
    main()
