"""minimise an existing replay file in place: tools/minimise_replay.py <PROP> <file> [out]"""
import sys, os, json
sys.path.insert(0, os.path.dirname(os.path.dirname(os.path.abspath(__file__))))
from simkit import env
env.bootstrap()
import importlib
from simkit import minimise
prop, path = sys.argv[1], sys.argv[2]
out = sys.argv[3] if len(sys.argv) > 3 else path
m = importlib.import_module('machines.' + prop.lower()).Machine()
m.setup('quick', 1, replay=True)
p = json.load(open(path))
v = p['violation']
q = minimise.minimise(m, p, v, budget_s=300)
q['violation'] = v
json.dump(q, open(out, 'w'), indent=1, sort_keys=True)
print('steps %d -> %d' % (len(p['steps']), len(q['steps'])), q.get('minimised'))
