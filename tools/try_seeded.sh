#!/bin/sh
# tools/try_seeded.sh <worktree-id> <PROP> [extra check args]
# 1. confirm in the scratch worktree: demo fails with the change, passes without; test-suite passes with it
# 2. apply the patch to /repo, run the property's quick check, undo the patch straight afterwards
# Prints a summary; copies patch/demo to /verif/seeded/<id>/ (meta.json is written by hand afterwards).
id=$1; prop=$2; shift 2
wt=/tmp/wt/$id
out=/verif/seeded/$id
mkdir -p $out
cd $wt || exit 2
git diff > $out/patch.diff
cp demo.py $out/demo.py 2>/dev/null
echo "== patch: $(wc -l < $out/patch.diff) lines, files: $(git diff --name-only | tr '\n' ' ')"
echo "== demo with change:"; timeout 600 /venv/bin/python demo.py > $out/demo_with.txt 2>&1; echo "exit=$?"; tail -3 $out/demo_with.txt | cut -c1-200
git apply -R $out/patch.diff     # (git stash is shared between worktrees: not used)
echo "== demo without change:"; timeout 600 /venv/bin/python demo.py > $out/demo_without.txt 2>&1; echo "exit=$?"; tail -2 $out/demo_without.txt | cut -c1-200
git apply $out/patch.diff
if [ "$SKIP_TESTS" != "1" ]; then
  echo "== test-suite with change:"; timeout 1800 /venv/bin/python -m pytest -q -p no:cacheprovider --timeout=900 mpmath > $out/tests.txt 2>&1; echo "exit=$?"; tail -1 $out/tests.txt
fi
cd /verif
if ! git -C /repo diff --quiet; then echo "/repo is dirty, refusing"; exit 2; fi
git -C /repo apply $out/patch.diff || exit 2
echo "== ./check $prop (quick) with the change applied to /repo:"
timeout 1500 ./check $prop --tier quick --no-evidence "$@" > $out/check.txt 2>&1; echo "exit=$?"
git -C /repo checkout -- .
grep -c "^VIOLATION" $out/check.txt
grep "^VIOLATION\|^  check\|^  (regression\|HARNESS" $out/check.txt | cut -c1-260 | head -12
tail -1 $out/check.txt | cut -c1-200
git -C /repo status --short | head -3
