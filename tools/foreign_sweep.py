"""tools/foreign_sweep.py [n]: every catalogue function entry of the mp context, called in a clone (120 bits)
once with the clone's own numbers and once with the same values owned by mp (at 40 bits): lists the entries
whose result differs or comes back as mp's type.  A survey tool for C38's foreign-operand steps, not a check."""
import sys, os, json, random
sys.path.insert(0, os.path.dirname(os.path.dirname(os.path.abspath(__file__))))
from simkit import env
env.bootstrap()
from simkit import proc, codec
from simkit.world import World
from ops import catalogue
from concurrent.futures import ProcessPoolExecutor
import multiprocessing as mp_

def one(task):
    key, i = task
    e = catalogue.BY_KEY[key]
    rng = random.Random('%s/foreign/%d' % (key, i))
    for _ in range(12):
        step = e.gen(rng, {'maxwidth': 100, 'nostr': True}, actor='c1')
        idx = [k for k, a in enumerate(step.get('args', [])) if a.get('t') in ('mpf', 'mpc')]
        if idx:
            break
    step['id'] = 5
    if not idx:
        return (key, 'noarg', None)
    def run(foreign):
        st = json.loads(json.dumps(step))
        if foreign:
            for k in idx:
                st['args'][k]['owner'] = 'mp'
        def child():
            w = World(budget=600000)
            w.seed_base = b'x'
            w.actors['mp'].prec = 40
            w.actors['c1'] = w.actors['mp'].clone()
            w.actors['c1'].prec = min(120, e.maxprec)
            rec, res = w.exec_leaf(st)
            return (rec.get('status'), codec.encode(res) if rec.get('status') == 'ok' else rec.get('exc'))
        return proc.call_in_child(child, timeout=60)
    a = run(False); b = run(True)
    if a[0] != 'ok' or b[0] != 'ok':
        return (key, 'inconclusive', None)
    if a[1] == b[1]:
        return (key, 'same', None)
    return (key, 'DIFF', (codec.short(a[1][1], 100), codec.short(b[1][1], 100)))

if __name__ == '__main__':
    n = int(sys.argv[1]) if len(sys.argv) > 1 else 3
    keys = [e.key for e in catalogue.entries(ctx='mp', maxcost=3) if e.op.startswith('f:')]
    tasks = [(k, i) for k in keys for i in range(n)]
    with ProcessPoolExecutor(16, mp_context=mp_.get_context('fork')) as ex:
        res = list(ex.map(one, tasks, chunksize=2))
    agg = {}
    for key, st, d in res:
        a = agg.setdefault(key, {'same': 0, 'DIFF': 0, 'inconclusive': 0, 'noarg': 0, 'ex': None})
        a[st] += 1
        if d and not a['ex']:
            a['ex'] = d
    bad = sorted(k for k, a in agg.items() if a['DIFF'])
    for k in bad:
        print('%-20s diff=%d same=%d  %s' % (k, agg[k]['DIFF'], agg[k]['same'], agg[k]['ex']))
    print('%d entries, %d with number operands, %d differ: %s' % (len(agg), sum(1 for a in agg.values() if a['same'] or a['DIFF']), len(bad), ' '.join(bad)))
