"""Independent big-integer oracle for mathematical constants (C17).

Shares no code with mpmath.  Every constant is an enclosure [lo, hi] of
integers scaled by 2**P; expected p-bit values are produced by own rounding
code for each of mpmath's rounding modes ('n' nearest-even, 'f' floor,
'c' ceiling, 'd' toward zero, 'u' away from zero).
"""
from math import isqrt

P = 6400          # enclosure precision in bits
_G = 64           # guard bits inside the series evaluations

def _atan_inv(q, prec):
    """enclosure of atan(1/q) * 2**prec, q >= 2 integer (alternating series)"""
    one = 1 << prec
    term = one // q          # 1/q^(2k+1), truncated
    q2 = q * q
    s_lo = s_hi = 0
    k = 0
    n = 0
    while term:
        t = term // (2 * k + 1)
        if k % 2 == 0:
            s_lo += t; s_hi += t + 1
        else:
            s_lo -= t + 1; s_hi -= t
        # truncation of `term` itself: bounded below
        term //= q2
        k += 1
    # each truncated `term` underestimates by < 1 ulp, accumulated k ulps; plus tail < 1 ulp
    return s_lo - k - 2, s_hi + k + 2

def _atanh_inv(q, prec):
    """enclosure of atanh(1/q) * 2**prec (positive series)"""
    one = 1 << prec
    term = one // q
    q2 = q * q
    s = 0
    k = 0
    while term:
        s += term // (2 * k + 1)
        term //= q2
        k += 1
    # every division truncates: s underestimates by at most 2k+2 ulps (+ geometric tail < 1)
    return s, s + 2 * k + 4

def _shift(lohi, bits):
    lo, hi = lohi
    return lo >> bits, -((-hi) >> bits)

_cache = {}

def enclosure(name):
    """(lo, hi) integers with lo/2**P < constant < hi/2**P"""
    v = _cache.get(name)
    if v is None:
        v = _cache[name] = _compute(name)
    return v

def _compute(name):
    wp = P + _G
    if name == 'pi':
        a = _atan_inv(5, wp); b = _atan_inv(239, wp)
        lo = 16 * a[0] - 4 * b[1]; hi = 16 * a[1] - 4 * b[0]
        return _shift((lo, hi), _G)
    if name == 'degree':
        lo, hi = enclosure_wp('pi')
        return _shift((lo // 180 - 1, hi // 180 + 1), _G)
    if name == 'e':
        one = 1 << wp
        s = 0; term = one; k = 0
        while term:
            s += term
            k += 1
            term //= k
        return _shift((s, s + k + 3), _G)
    if name == 'ln2':
        a = _atanh_inv(3, wp)
        return _shift((2 * a[0], 2 * a[1]), _G)
    if name == 'ln10':
        a = _atanh_inv(3, wp); b = _atanh_inv(9, wp)
        return _shift((6 * a[0] + 2 * b[0], 6 * a[1] + 2 * b[1]), _G)
    if name == 'phi':
        r = isqrt(5 << (2 * wp))          # floor(sqrt(5) * 2^wp)
        lo = ((1 << wp) + r) >> 1
        return _shift((lo - 1, lo + 2), _G)
    if name == 'apery':
        # zeta(3) = 5/2 sum_{k>=1} (-1)^(k-1) / (k^3 binomial(2k,k))
        one = 1 << wp
        s_lo = s_hi = 0
        binom = 1
        k = 0
        while True:
            k += 1
            binom = binom * (2 * k) * (2 * k - 1) // (k * k)
            t = one // (k ** 3 * binom)
            if not t:
                break
            if k % 2 == 1:
                s_lo += t; s_hi += t + 1
            else:
                s_lo -= t + 1; s_hi -= t
        return _shift((5 * (s_lo - 1) // 2 - 1, 5 * (s_hi + 1) // 2 + 2), _G)
    if name == 'euler':
        return _shift(_euler(wp), _G)
    raise KeyError(name)

def enclosure_wp(name):
    """enclosure at P+_G bits (internal)"""
    lo, hi = enclosure(name)
    # re-derive at higher precision only for pi (needed by degree)
    if name == 'pi':
        wp = P + _G
        a = _atan_inv(5, wp); b = _atan_inv(239, wp)
        return 16 * a[0] - 4 * b[1], 16 * a[1] - 4 * b[0]
    return lo << _G, hi << _G

def _euler(wp):
    """Brent-McMillan: gamma = S/I - ln(n) with n = 2^m, error < 3 e^(-4n).
    Evaluated with exact rationals scaled by 2**w2 and explicit error bounds."""
    # n such that 3*exp(-4n) < 2^-(wp+8)
    m = 1
    while 4 * (1 << m) * 1.4426 < wp + 16:
        m += 1
    n = 1 << m
    extra = 2 * int(2 * n * 1.4427) + 64          # terms grow up to e^(2n)
    w2 = wp + extra
    one = 1 << w2
    # term_k = (n^k/k!)^2 ; H_k harmonic numbers (fixed point, truncated, errors tracked)
    t = one
    I = t
    S = 0
    H = 0
    k = 0
    nn = n * n
    while t:
        k += 1
        t = t * nn // (k * k)
        H += one // k
        I += t
        S += (t * H) >> w2
    # truncation errors: each step loses < 1 ulp in t (relative tiny), H (k ulps), product (1 ulp):
    # bound the absolute error of S by k*(k+3) ulps * (max t / one) and of I by k ulps -- generous bound:
    errS = (k + 3) * (k + 3) * ((I >> w2) + 2)
    errI = k + 2
    # gamma + ln n = S/I (+ O(e^-4n))
    q_lo = ((S - errS) << wp) // (I + errI) - 1
    q_hi = -((-(S + errS) << wp) // (I - errI)) + 1
    ln2 = _atanh_inv(3, wp)
    lnn_lo = 2 * ln2[0] * m; lnn_hi = 2 * ln2[1] * m
    return q_lo - lnn_hi - 4, q_hi - lnn_lo + 4

FAST = ('pi', 'e', 'ln2', 'ln10', 'phi', 'degree')
OWN = FAST + ('apery', 'euler')

# ---------------------------------------------------------------------------
# rounding of a positive fixed-point integer X * 2**-P to a p-bit mantissa

def round_fixed(X, scale, p, mode):
    """-> (man, exp) with odd man (canonical), value man*2**exp"""
    bc = X.bit_length()
    shift = bc - p
    if shift <= 0:
        man, exp = X, -scale
    else:
        man = X >> shift
        rem = X & ((1 << shift) - 1)
        half = 1 << (shift - 1)
        if mode == 'n':
            if rem > half or (rem == half and (man & 1)):
                man += 1
        elif mode in ('c', 'u'):
            if rem:
                man += 1
        # 'f' and 'd': truncate (positive number)
        exp = shift - scale
    tz = (man & -man).bit_length() - 1
    return man >> tz, exp + tz

def expected(name, p, mode):
    """Expected (man, exp) of the p-bit value of the constant in rounding mode
    `mode`, or None if the enclosure straddles a rounding boundary."""
    lo, hi = enclosure(name)
    a = round_fixed(lo, P, p, mode)
    b = round_fixed(hi, P, p, mode)
    if a != b:
        return None
    return a

def contains(name, man, exp, side):
    """side 'le': man*2^exp <= constant ; 'ge': >= ; exact comparison against the enclosure.
    Returns True / False, or None when undecidable within the enclosure."""
    lo, hi = enclosure(name)
    # compare man*2^exp with lo/2^P and hi/2^P
    def cmp(x):    # sign of man*2^exp - x/2^P
        if exp + P >= 0:
            l = man << (exp + P); r = x
        else:
            l = man; r = x << (-(exp + P))
        return (l > r) - (l < r)
    if side == 'le':
        if cmp(lo) <= 0:
            return True
        if cmp(hi) >= 0:
            return False
        return None
    else:
        if cmp(hi) >= 0:
            return True
        if cmp(lo) <= 0:
            return False
        return None

def within_ulps(name, man, exp, p, ulps=1):
    """|man*2^exp - c| < ulps * ulp_p(c); exact rational comparison against the enclosure."""
    lo, hi = enclosure(name)
    # ulp_p of a value in [2^(e), 2^(e+1)) is 2^(e-p+1); all constants here are in [2^-6, 4)
    top = hi.bit_length() - P           # c < 2^top
    ulp_exp = top - p                   # ulp = 2^(top-p)  (for values in [2^(top-1), 2^top))
    # scale everything to 2^-(S)
    S = max(P, -exp, -ulp_exp) + 2
    v = man << (exp + S)
    L = lo << (S - P); H = hi << (S - P)
    u = ulps << (ulp_exp + S)
    return (v - H < u) and (L - v < u)
