"""User-callback library (stubs) and the callback shim.

Callbacks are ordinary Python given to callback-taking entry points.  Each is
named, parameterised by small integers from the program, and wrapped in a shim
that, on its k-th invocation, may raise UserFault (F1) or run a nested step of
another actor (F4) before returning normally.
"""
from simkit.monitor import UserFault

def _lib(ctx, name, p):
    """Return the bare callable.  p is a list of small ints."""
    a = (p[0] if p else 1) or 1
    b = p[1] if len(p) > 1 else 2
    mpf = ctx.mpf
    if name == 'expneg':       # exp(-a t)
        return lambda t: ctx.exp(-a * t)
    if name == 'poly':         # a t^2 + b t + 1
        return lambda t: a * t * t + b * t + 1
    if name == 'lorentz':      # 1/(1+t^2)
        return lambda t: 1 / (1 + t * t)
    if name == 'cosexp':       # cos(a t) exp(-t)
        return lambda t: ctx.cos(a * t) * ctx.exp(-t)
    if name == 'sinx':
        return lambda t: ctx.sin(a * t)
    if name == 'invpow':       # 1/k^(b+1)
        return lambda k: 1 / ctx.convert(k) ** (b + 1)
    if name == 'altinv':       # (-1)^k/k
        return lambda k: (-1) ** int(k) / mpf(k)
    if name == 'geom':         # (1/(a+1))^k
        return lambda k: (mpf(1) / (a + 1)) ** k
    if name == 'prodterm':     # 1 + 1/k^2
        return lambda k: 1 + 1 / mpf(k) ** 2
    if name == 'sqminus':      # x^2 - (a+1)
        return lambda x: x * x - (a + 1)
    if name == 'cubic':        # x^3 - a x - b
        return lambda x: x ** 3 - a * x - b
    if name == 'multroot':     # (x-a)^b
        return lambda x: (x - a) ** b
    if name == 'limseq':       # (1+1/n)^n style
        return lambda n: (1 + mpf(a) / n) ** n
    if name == 'sinc_lim':     # sin(x)/x
        return lambda x: ctx.sin(x) / x
    if name == 'gauss':
        return lambda t: ctx.exp(-t * t / a)
    if name == 'f2d':          # 2-d integrand / function
        return lambda x, y: ctx.cos(x + a * y) + b
    if name == 'sys2':         # 2-d system for findroot / jacobian
        return lambda x, y: [x * x + y * y - (a + 1), x - y * b]
    if name == 'sys2m':        # same for jacobian (returns list)
        return lambda x, y: [x * x + y * y - (a + 1), x - y * b]
    if name == 'ode_exp':      # y' = -a y  (scalar)
        return lambda x, y: -a * y
    if name == 'ode_lin':      # y' = a y
        return lambda x, y: a * y
    if name == 'ode_osc':      # y0' = y1, y1' = -a^2 y0
        return lambda x, y: [y[1], -(a * a) * y[0]]
    if name == 'ode_rat':      # y' = -y^2
        return lambda x, y: -y * y
    if name == 'ode_poly':     # y' = 3x^2 + 2a x + b   (solution: polynomial)
        return lambda x, y: 3 * x * x + 2 * a * x + b
    if name == 'ode_xpow':     # y' = x^(8a+2b): a polynomial right-hand side of high degree (10..30)
        return lambda x, y: x ** (8 * a + 2 * b)
    if name == 'ode_bigosc':   # a huge constant component next to a fast oscillator: y0' = 0, y1' = -w y2, y2' = w y1, w = 4(a+1)
        return lambda x, y: [0 * y[0], -(4 * (a + 1)) * y[2], (4 * (a + 1)) * y[1]]
    if name == 'ode_tri':      # triangular linear system y0' = -a y0 + b y1, y1' = -(a+1) y1
        return lambda x, y: [-a * y[0] + b * y[1], -(a + 1) * y[1]]
    if name == 'lap_exp':      # 1/(p+a)
        return lambda s: 1 / (s + a)
    if name == 'lap_sin':      # 1/(p^2+1)
        return lambda s: 1 / (s * s + 1)
    if name == 'lap_j0':       # 1/sqrt(p^2+1)
        return lambda s: 1 / ctx.sqrt(s * s + 1)
    if name == 'ident':
        return lambda x: x
    if name == 'gammaf':
        return lambda x: ctx.gamma(x + a)
    if name == 'zetaf':
        return lambda x: ctx.zeta(x + 2)
    if name == 'besself':
        return lambda x: ctx.besselj(a, x)
    if name == 'tuplef':       # returns a tuple (for normalize_output decorators)
        return lambda x: (ctx.sqrt(x + a), ctx.exp(x))
    if name == 'divf':         # 1/(x-a): raises ZeroDivisionError at x == a
        return lambda x: 1 / (x - a)
    if name == 'kwf':          # accepts kwargs (memoize)
        return lambda x, **kw: ctx.exp(x) + kw.get('c', 0)
    if name == 'matf':         # returns a matrix (memoize: the cached object must not be the one handed out)
        return lambda x: ctx.matrix([[ctx.exp(x), a], [b, ctx.sqrt(x + a)]])
    if name == 'listf':        # returns a list
        return lambda x: [ctx.exp(x), ctx.ln(x + a)]
    raise KeyError('unknown callback ' + name)

CALLBACK_NAMES = ['expneg', 'poly', 'lorentz', 'cosexp', 'sinx', 'invpow', 'altinv', 'geom',
                  'prodterm', 'sqminus', 'cubic', 'multroot', 'limseq', 'sinc_lim', 'gauss',
                  'f2d', 'sys2', 'sys2m', 'ode_exp', 'ode_lin', 'ode_osc', 'ode_rat', 'lap_exp',
                  'lap_sin', 'lap_j0', 'ident', 'gammaf', 'zetaf', 'besself', 'tuplef', 'divf', 'kwf']


class Shim(object):
    """Counts invocations; on the k-th does what the program says."""
    def __init__(self, world, ctx, spec):
        self.world = world
        self.f = _lib(ctx, spec['name'], spec.get('p') or [])
        self.name = spec['name']
        self.k = None
        self.act = None
        self.nested = None
        sh = spec.get('shim')
        if sh:
            self.k = sh.get('k')
            self.act = sh.get('act')
            self.nested = sh.get('step')
        self.calls = 0
        self.fired = False
        world.shims.append(self)
        self.__name__ = 'cb_' + self.name

    def __call__(self, *args, **kwargs):
        self.calls += 1
        if self.k is not None and self.calls == self.k and not self.fired:
            self.fired = True
            if self.act == 'raise':
                self.world.note_fault({'kind': 'F1', 'cb': self.name, 'k': self.k})
                raise UserFault('callback %s invocation %d' % (self.name, self.k))
            if self.act == 'nested':
                self.world.run_nested(self.nested, self)
        return self.f(*args, **kwargs)
