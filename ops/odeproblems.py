"""ODE problem table with closed-form solutions (C34).

Each problem: callback name (ops/callbacks.py), integer parameters (a, b),
initial value(s), a Lipschitz-type growth exponent L (error growth bound
exp(L (x-x0))) and the exact solution evaluated with mpmath's elementary
functions at the precision in force (the judge calls it at >= 2x precision in
the pristine state)."""

def exact(ctx, name, p, x0, y0, x):
    """exact solution at x; y0 scalar or list (already ctx numbers); returns list of ctx numbers"""
    a = (p[0] if p else 1) or 1
    b = p[1] if len(p) > 1 else 2
    t = x - x0
    if name == 'ode_exp':           # y' = -a y
        return [y0[0] * ctx.exp(-a * t)]
    if name == 'ode_lin':           # y' = a y
        return [y0[0] * ctx.exp(a * t)]
    if name == 'ode_rat':           # y' = -y^2
        return [y0[0] / (1 + y0[0] * t)]
    if name == 'ode_poly':          # y' = 3x^2 + 2a x + b
        P = lambda s: s ** 3 + a * s ** 2 + b * s
        return [y0[0] + P(x) - P(x0)]
    if name == 'ode_xpow':          # y' = x^m, m = 8a + 2b
        m = 8 * a + 2 * b
        return [y0[0] + (x ** (m + 1) - x0 ** (m + 1)) / (m + 1)]
    if name == 'ode_bigosc':        # y0' = 0 ; y1' = -w y2 ; y2' = w y1
        w = 4 * (a + 1)
        c, s_ = ctx.cos(w * t), ctx.sin(w * t)
        return [y0[0], y0[1] * c - y0[2] * s_, y0[2] * c + y0[1] * s_]
    if name == 'ode_osc':           # y0' = y1, y1' = -a^2 y0
        c, s = ctx.cos(a * t), ctx.sin(a * t)
        return [y0[0] * c + y0[1] / a * s, -y0[0] * a * s + y0[1] * c]
    if name == 'ode_tri':           # y0' = -a y0 + b y1 ; y1' = -(a+1) y1
        e1 = ctx.exp(-a * t); e2 = ctx.exp(-(a + 1) * t)
        # y1 = y1_0 e2 ; y0 = (y0_0 + b y1_0) e1 - b y1_0 e2   (since d - a = -1)
        return [(y0[0] + b * y0[1]) * e1 - b * y0[1] * e2, y0[1] * e2]
    raise KeyError(name)

def growth_L(name, p):
    a = (p[0] if p else 1) or 1
    b = p[1] if len(p) > 1 else 2
    if name == 'ode_lin':
        return a
    if name == 'ode_rat':
        return 0
    if name == 'ode_tri':
        return 0
    return 0

def dim(name):
    return 3 if name == 'ode_bigosc' else (2 if name in ('ode_osc', 'ode_tri') else 1)

PROBLEMS = ['ode_exp', 'ode_lin', 'ode_rat', 'ode_poly', 'ode_osc', 'ode_tri', 'ode_xpow', 'ode_bigosc']
