"""Hand-written operation catalogue (DESIGN.md 2.3 / appendix A).

Entries are generated from name lists per family.  An entry knows its public
entry point, the contexts that support it, argument domains, tolerance class
(for the pristine-process oracle), whether C10 covers its results, and a cost
class.  Argument generation draws only from the PRNG it is given and produces
JSON-able argument specs (simkit.world.World.mat materialises them).
"""
import math

# ---------------------------------------------------------------------------
# literal generators

WIDTHS = [1, 2, 3, 5, 8, 12, 16, 24, 30, 40, 53, 53, 53, 64, 80, 100, 113, 150, 200, 300, 400, 600, 900, 1200]

def rand_man(rng, bits):
    if bits <= 1:
        return 1
    return (1 << (bits - 1)) | rng.getrandbits(bits - 1) | 1

def mpf_spec(rng, lo_exp, hi_exp, sign=None, width=None, maxwidth=None):
    """Random mpf literal with magnitude in [2^lo_exp, 2^hi_exp)."""
    w = width or rng.choice(WIDTHS)
    if maxwidth:
        w = min(w, maxwidth)
    man = rand_man(rng, w)
    top = rng.randint(lo_exp, hi_exp - 1)       # floor(log2 |x|)
    exp = top - (man.bit_length() - 1)
    s = rng.randint(0, 1) if sign is None else sign
    return {'t': 'mpf', 'v': [s, '%x' % man, exp]}

def real_spec(rng, lo_exp, hi_exp, sign=None, cfg=None, allow_int=False):
    """A real number in one of its user-visible representations."""
    r = rng.random()
    mw = (cfg or {}).get('maxwidth')
    if r < 0.60:
        return mpf_spec(rng, lo_exp, hi_exp, sign, maxwidth=mw)
    x = math.ldexp(0.5 + rng.random() / 2, rng.randint(lo_exp, hi_exp - 1) + 1)
    s = rng.randint(0, 1) if sign is None else sign
    if s:
        x = -x
    if r < 0.75:
        return {'t': 'float', 'v': float(x).hex()}
    if r < 0.85 and (allow_int or abs(x) >= 1):
        n = int(x) or (1 if not s else -1)
        return {'t': 'int', 'v': n}
    if r < 0.95 and not (cfg or {}).get('nostr'):
        return {'t': 'str', 'v': '%.*g' % (rng.choice([3, 8, 17, 30]), x)}
    return mpf_spec(rng, lo_exp, hi_exp, sign, width=rng.choice([1, 2, 53]))

def cplx_spec(rng, lo_exp, hi_exp, cfg=None):
    mw = (cfg or {}).get('maxwidth')
    r = rng.random()
    if r < 0.8:
        return {'t': 'mpc', 'v': [mpf_spec(rng, lo_exp, hi_exp, maxwidth=mw)['v'],
                                   mpf_spec(rng, lo_exp, hi_exp, maxwidth=mw)['v']]}
    a = math.ldexp(0.5 + rng.random() / 2, rng.randint(lo_exp, hi_exp - 1) + 1) * rng.choice([-1, 1])
    b = math.ldexp(0.5 + rng.random() / 2, rng.randint(lo_exp, hi_exp - 1) + 1) * rng.choice([-1, 1])
    return {'t': 'complex', 'v': [float(a).hex(), float(b).hex()]}

def I(n):
    return {'t': 'int', 'v': int(n)}

def L(*xs):
    return {'t': 'list', 'v': list(xs)}

def CB(name, *p):
    return {'t': 'cb', 'name': name, 'p': [int(x) for x in p]}

def gen_dom(rng, dom, cfg=None):
    """One argument spec for a domain tag."""
    if isinstance(dom, dict):
        return _copy(dom)
    if callable(dom):
        return dom(rng, cfg)
    if dom == 'x':
        return real_spec(rng, -6, 5, cfg=cfg)
    if dom == 'p':
        return real_spec(rng, -5, 5, sign=0, cfg=cfg)
    if dom == 'P':      # positive, away from 0 and moderate: [0.25, 16)
        return real_spec(rng, -2, 4, sign=0, cfg=cfg)
    if dom == 'u':
        return real_spec(rng, -8, 0, cfg=cfg)
    if dom == 'v':
        return real_spec(rng, -6, 0, sign=0, cfg=cfg)
    if dom == 'g':      # > 1
        return real_spec(rng, 1, 5, sign=0, cfg=cfg)
    if dom == 'b':      # big real
        return real_spec(rng, 5, 12, cfg=cfg)
    if dom == 'z':
        return cplx_spec(rng, -5, 4, cfg=cfg)
    if dom == 'w':      # complex inside the unit disc
        return cplx_spec(rng, -6, -1, cfg=cfg)
    if dom == 'Z':
        return cplx_spec(rng, -5, 4, cfg=cfg) if rng.random() < 0.4 else real_spec(rng, -6, 5, cfg=cfg)
    if dom == 'W':      # real or complex, inside the unit disc
        return cplx_spec(rng, -6, -1, cfg=cfg) if rng.random() < 0.4 else real_spec(rng, -8, 0, cfg=cfg)
    if dom == 'Zp':     # real positive or complex with moderate parts
        return cplx_spec(rng, -3, 3, cfg=cfg) if rng.random() < 0.3 else real_spec(rng, -3, 4, sign=0, cfg=cfg)
    if dom == 'n':
        return I(rng.randint(0, 25))
    if dom == 'm':
        return I(rng.randint(1, 12))
    if dom == 'k':
        return I(rng.randint(-6, 6))
    if dom == 'h':      # integer or half-integer order
        k = rng.randint(-8, 8)
        if k % 2 == 0 or rng.random() < 0.3:
            return I(k // 2)
        return {'t': 'float', 'v': float(k / 2.0).hex()}
    if dom == 'o':      # order: int, half-int or real
        r = rng.random()
        if r < 0.6:
            return gen_dom(rng, 'h', cfg)
        return real_spec(rng, -3, 3, cfg=cfg)
    if dom == 'q':      # nome
        if rng.random() < 0.7:
            return real_spec(rng, -6, -1, sign=0, cfg=cfg)
        return cplx_spec(rng, -6, -2, cfg=cfg)
    if dom == 'mm':     # elliptic parameter m < 1
        return real_spec(rng, -6, 0, cfg=cfg)
    if dom == 's':      # zeta argument: real > 1-ish or complex moderate
        r = rng.random()
        if r < 0.3:
            return I(rng.randint(2, 40))
        if r < 0.6:
            return real_spec(rng, 1, 5, sign=0, cfg=cfg)
        return {'t': 'mpc', 'v': [mpf_spec(rng, -2, 3, maxwidth=(cfg or {}).get('maxwidth'))['v'],
                                   mpf_spec(rng, 0, 5, maxwidth=(cfg or {}).get('maxwidth'))['v']]}
    if dom == 'T':      # height on the critical line (moderate)
        return real_spec(rng, 3, 8, sign=0, cfg=cfg)
    if dom.startswith('i:'):
        _, lo, hi = dom.split(':')
        return I(rng.randint(int(lo), int(hi)))
    if dom.startswith('c:'):    # choice of ints
        return I(int(rng.choice(dom[2:].split(','))))
    if dom.startswith('N:'):    # integer straddling cache limits: N:a,b,c -> near one of the limits or small
        lims = [int(t) for t in dom[2:].split(',')]
        r = rng.random()
        if r < 0.4:
            return I(rng.randint(0, 30))
        lim = rng.choice(lims)
        return I(max(0, lim + rng.randint(-12, 12)))
    if dom == 'I01':
        return L(I(0), I(1))
    if dom == 'Iab':
        a = rng.randint(-3, 2)
        return L(I(a), I(a + rng.randint(1, 4)))
    if dom == 'Iinf':
        return L(I(0), {'t': 'attr', 'v': 'inf'})
    if dom == 'I1inf':
        return L(I(1), {'t': 'attr', 'v': 'inf'})
    if dom == 'Iany':
        return gen_dom(rng, rng.choice(['I01', 'Iab', 'Iab', 'Iinf']), cfg)
    if dom == 'I3':      # interval with an interior split point
        return L(I(0), real_spec(rng, -2, 0, sign=0, cfg=cfg), I(2))
    if dom.startswith('cb:'):
        return CB(dom[3:], rng.randint(1, 4), rng.randint(1, 4))
    if dom == 'vec':     # list of 2-5 reals
        return L(*[real_spec(rng, -3, 3, cfg=cfg) for _ in range(rng.randint(2, 5))])
    if dom == 'ivec':    # list of small ints
        return L(*[I(rng.randint(-5, 9)) for _ in range(rng.randint(2, 5))])
    if dom == 'poly':    # polynomial coefficients, leading nonzero
        return L(I(rng.randint(1, 4)), *[I(rng.randint(-6, 6)) for _ in range(rng.randint(1, 4))])
    if dom.startswith('mat'):   # matN or mat: square matrix with exactly representable entries
        n = int(dom[3:]) if len(dom) > 3 else rng.randint(2, 4)
        return mat_spec(rng, n, n)
    if dom == 'spd':     # symmetric positive definite
        n = rng.randint(2, 4)
        rows = [[rng.randint(-3, 3) for _ in range(n)] for _ in range(n)]
        a = [[sum(rows[i][k] * rows[j][k] for k in range(n)) + (n * 10 if i == j else 0) for j in range(n)] for i in range(n)]
        return {'t': 'matrix', 'v': [[I(v) for v in r] for r in a]}
    if dom == 'sym':
        n = rng.randint(2, 4)
        a = [[0] * n for _ in range(n)]
        for i in range(n):
            for j in range(i, n):
                a[i][j] = a[j][i] = rng.randint(-8, 8)
        return {'t': 'matrix', 'v': [[I(v) for v in r] for r in a]}
    if dom == 'smallmat':  # small-norm matrix (for expm/logm/sqrtm near identity)
        n = rng.randint(2, 3)
        return {'t': 'matrix', 'v': [[{'t': 'frac', 'v': [rng.randint(-3, 3) + (4 if i == j else 0), 4]} for j in range(n)] for i in range(n)]}
    if dom.startswith('colvec'):
        n = int(dom[6:]) if len(dom) > 6 else rng.randint(2, 4)
        return mat_spec(rng, n, 1)
    if dom.startswith('='):
        v = dom[1:]
        try:
            return I(int(v))
        except ValueError:
            return {'t': 'str', 'v': v}
    if dom.startswith('attr:'):
        return {'t': 'attr', 'v': dom[5:]}
    raise KeyError('unknown domain %r' % dom)

def mat_spec(rng, r, c):
    """Entries exactly representable at any precision: small dyadic rationals,
    diagonally weighted so that most matrices are comfortably regular."""
    rows = []
    for i in range(r):
        row = []
        for j in range(c):
            v = rng.randint(-16, 16)
            if i == j:
                v += rng.choice([-40, 40])
            row.append({'t': 'frac', 'v': [v, rng.choice([1, 2, 4, 8])]})
        rows.append(row)
    return {'t': 'matrix', 'v': rows}

def _copy(x):
    if isinstance(x, dict):
        return dict((k, _copy(v)) for k, v in x.items())
    if isinstance(x, list):
        return [_copy(v) for v in x]
    return x

# ---------------------------------------------------------------------------
# entries

class Entry(object):
    __slots__ = ('key', 'op', 'doms', 'kw', 'ctxs', 'fam', 'tol', 'c10', 'cost', 'exact', 'cb', 'ret',
                 'maxprec', 'pair')
    def __init__(self, key, op, doms, kw=None, ctxs=('mp',), fam='?', tol=8, c10=True, cost=1,
                 exact=False, ret='num', maxprec=1200):
        self.key = key          # unique name in the catalogue
        self.op = op            # world op string ('f:gamma', 'op:add', ...)
        self.doms = doms
        self.kw = kw or {}
        self.ctxs = ctxs
        self.fam = fam
        self.tol = tol
        self.c10 = c10
        self.cost = cost        # 1 fast, 2 medium, 3 slow
        self.exact = exact
        self.cb = any(isinstance(d, str) and d.startswith('cb:') for d in doms)
        self.ret = ret          # 'num' | 'seq' | 'matrix' | 'other' | 'none' | 'obj'
        self.maxprec = maxprec

    def gen(self, rng, cfg=None, actor='mp'):
        if self.fam in 'AIKLJ' and not self.op.startswith('new:'):
            cfg = dict(cfg or {}); cfg['nostr'] = True
        args = [gen_dom(rng, d, cfg) for d in self.doms]
        kwargs = {}
        for k in sorted(self.kw):
            d = self.kw[k]
            if isinstance(d, tuple):        # (probability, domain)
                if rng.random() >= d[0]:
                    continue
                d = d[1]
            kwargs[k] = gen_dom(rng, d, cfg)
        st = {'kind': 'call', 'actor': actor, 'op': self.op, 'args': args, 'key': self.key}
        if kwargs:
            st['kwargs'] = kwargs
        return st

CAT = []
BY_KEY = {}

def E(name, doms, op=None, key=None, **o):
    if isinstance(doms, str):
        doms = [d for d in doms.split(' ') if d]
    elif callable(doms) or isinstance(doms, dict):
        doms = [doms]
    e = Entry(key or name, op or ('f:' + name), doms, **o)
    if e.key in BY_KEY:
        raise KeyError('duplicate catalogue key ' + e.key)
    CAT.append(e)
    BY_KEY[e.key] = e
    return e

ALL3 = ('mp', 'fp', 'iv')
MPFP = ('mp', 'fp')
MPIV = ('mp', 'iv')

# --- A: operators and constructors (correctly rounded) ----------------------
for _o in ['add', 'sub', 'mul', 'truediv']:
    E(_o, 'x x', op='op:' + _o, key='op_' + _o + '_rr', fam='A', tol=0, exact=True, ctxs=MPIV)
    E(_o, 'z Z', op='op:' + _o, key='op_' + _o + '_cz', fam='A', tol=2, ctxs=('mp',))
    E(_o, 'Z z', op='op:' + _o, key='op_' + _o + '_zc', fam='A', tol=2, ctxs=('mp',))
E('mod', 'x x', op='op:mod', key='op_mod', fam='A', tol=0, exact=True)
E('mod', 'u g', op='op:mod', key='op_mod_small', fam='A', tol=0, exact=True)
E('mod', 'u m', op='op:mod', key='op_mod_int', fam='A', tol=0, exact=True)      # |x| < |y|, y with a short mantissa
E('mod', 'b m', op='op:mod', key='op_mod_big', fam='A', tol=0, exact=True)
E('fmod', 'u m', key='fmod_int', fam='B', tol=0, exact=True)
E('pow', 'x k', op='op:pow', key='op_pow_int', fam='A', tol=0, exact=True)
E('pow', 'p x', op='op:pow', key='op_pow_rr', fam='A', tol=4)
E('pow', 'z Z', op='op:pow', key='op_pow_cz', fam='A', tol=4)
E('pow', 'z k', op='op:pow', key='op_pow_ck', fam='A', tol=4)
for _o in ['pos', 'neg', 'abs']:
    E(_o, 'x', op='op:' + _o, key='op_' + _o + '_r', fam='A', tol=0, exact=True, ctxs=MPIV)
    E(_o, 'z', op='op:' + _o, key='op_' + _o + '_c', fam='A', tol=2)
E('mpf', 'x', op='new:mpf', key='new_mpf', fam='A', tol=0, exact=True,
  kw={'prec': (0.3, 'i:1:300'), 'rounding': (0.3, lambda r, c: {'t': 'str', 'v': r.choice('nfcdu')})})
E('mpf', 'x', op='new:mpf', key='new_mpf_dps', fam='A', tol=0, exact=True, kw={'dps': (0.7, 'i:1:80')})
E('mpc', 'x x', op='new:mpc', key='new_mpc', fam='A', tol=0, exact=True)
E('mpc', 'z', op='new:mpc', key='new_mpc_c', fam='A', tol=0, exact=True)
# more construction / unary / multiplicative forms (operands that make a shortcut tempting: units, powers of two, pure imaginary)
def _unit(r, c):
    return r.choice([I(1), I(-1), I(2), I(4), {'t': 'float', 'v': (0.5).hex()}, {'t': 'float', 'v': (1.0).hex()},
                     {'t': 'mpf', 'v': [0, '1', r.randint(-8, 8)]}, {'t': 'mpf', 'v': [1, '1', r.randint(-8, 8)]}])
def _imag(r, c):
    return r.choice([{'t': 'complex', 'v': [(0.0).hex(), (1.0).hex()]}, {'t': 'complex', 'v': [(0.0).hex(), (-1.0).hex()]},
                     {'t': 'complex', 'v': [(0.0).hex(), (2.0).hex()]}, {'t': 'mpc', 'v': [[0, '0', 0], mpf_spec(r, -3, 3)['v']]},
                     {'t': 'complex', 'v': [(1.0).hex(), (0.0).hex()]}])
def _rawtuple(r, c):
    w = r.choice(WIDTHS)
    return {'t': 'tuple', 'v': [I(rand_man(r, w) * r.choice([1, -1])), I(r.randint(-w - 10, 10 - w))]}
for _o in ['mul', 'truediv']:
    E(_o, ['x', _unit], op='op:' + _o, key='op_' + _o + '_unit', fam='A', tol=0, exact=True)
    E(_o, ['z', _unit], op='op:' + _o, key='op_' + _o + '_cunit', fam='A', tol=2)
    E(_o, ['z', _imag], op='op:' + _o, key='op_' + _o + '_cimag', fam='A', tol=2)
E('mul', [_unit, 'x'], op='op:mul', key='op_rmul_unit', fam='A', tol=0, exact=True)
E('mul', [_imag, 'z'], op='op:mul', key='op_rmul_cimag', fam='A', tol=2)
E('mul', [_unit, 'z'], op='op:mul', key='op_rmul_cunit', fam='A', tol=2)
E('truediv', [_unit, 'x'], op='op:truediv', key='op_rdiv_unit', fam='A', tol=0, exact=True)
E('pow', 'x c:0,1,2,-1', op='op:pow', key='op_pow_small', fam='A', tol=0, exact=True)
E('pow', 'z c:0,1,2,-1', op='op:pow', key='op_pow_csmall', fam='A', tol=4)
E('mpf', [_rawtuple], op='new:mpf', key='new_mpf_tuple', fam='A', tol=0, exact=True, kw={'prec': (0.3, 'i:1:300')})
E('mpf', [lambda r, c: {'t': 'const', 'v': r.choice(['pi', 'e', 'ln2', 'euler', 'phi', 'catalan'])}], op='new:mpf', key='new_mpf_const',
  fam='A', tol=0, exact=True, kw={'prec': (0.4, 'i:1:300'), 'rounding': (0.3, lambda r, c: {'t': 'str', 'v': r.choice('nfcdu')})})
E('mpc', ['x', 'x'], op='new:mpc', key='new_mpc_kw', fam='A', tol=0, exact=True)
E('ldexp', 'x k', key='ldexp2', fam='L', exact=True, c10=False)
E('fmul', ['Z', _unit], key='fmul_unit', fam='L', tol=2, kw={'prec': (0.3, 'i:1:300')})
E('fdiv', ['Z', _unit], key='fdiv_unit', fam='L', tol=2, kw={'prec': (0.3, 'i:1:300')})
for _n in ['fadd', 'fsub', 'fmul', 'fdiv']:
    E(_n, 'Z Z', fam='L', tol=2,
      kw={'prec': (0.3, 'i:1:300'), 'dps': (0.15, 'i:1:60'),
          'rounding': (0.3, lambda r, c: {'t': 'str', 'v': r.choice('nfcdu')})})
E('fneg', 'Z', fam='L', tol=0, kw={'prec': (0.3, 'i:1:300')})
E('fsum', 'vec', fam='L', tol=2, kw={'absolute': (0.2, '=1'), 'squared': (0.2, '=1')})
E('fdot', 'vec vec', fam='L', tol=2)
E('fprod', 'vec', fam='L', tol=4)

# --- B: elementary ------------------------------------------------------------
for _n in ['sqrt', 'exp', 'ln', 'log10', 'cos', 'sin', 'tan', 'cosh', 'sinh', 'tanh', 'atan', 'asinh',
           'expj', 'expjpi', 'sinpi', 'cospi', 'expm1', 'sec', 'csc', 'cot', 'sech', 'csch', 'coth',
           'acot', 'acsch', 'sinc', 'sincpi', 'cbrt', 'log1p']:
    ctxs = ALL3 if _n in ('sqrt', 'exp', 'ln', 'cos', 'sin', 'tan', 'cosh', 'sinh', 'tanh', 'atan') else MPFP
    if _n in ('asinh', 'acsch'):
        ctxs = ('mp',)
    if _n in ('sinpi', 'cospi', 'atan', 'tan', 'cosh', 'sinh', 'tanh'):
        ctxs = tuple(c for c in ctxs if c != 'iv') if _n in ('sinpi', 'cospi', 'atan', 'cosh', 'sinh', 'tanh') else ctxs
    E(_n, 'Z', fam='B', tol=4, ctxs=ctxs,
      kw={'prec': (0.08, 'i:1:300'), 'rounding': (0.08, lambda r, c: {'t': 'str', 'v': r.choice('nfcdu')})}
      if _n in ('sqrt', 'exp', 'ln', 'cos', 'sin', 'tan', 'cosh', 'sinh', 'tanh', 'atan', 'asinh', 'sinpi', 'cospi', 'expj', 'expjpi', 'cbrt') else None)
for _n in ['asin', 'acos', 'atanh', 'acosh', 'asec', 'acsc', 'asech', 'acoth']:
    E(_n, 'W' if _n in ('asin', 'acos', 'atanh') else 'Z', fam='B', tol=4,
      ctxs=('mp',) if _n in ('acosh', 'atanh', 'asech', 'acoth') else MPFP)
for _n in ['floor', 'ceil', 'nint', 'frac']:
    E(_n, 'Z', fam='B', tol=0, exact=True, kw={'prec': (0.1, 'i:1:100')})
for _n in ['sign', 'fabs', 'arg', 'degrees', 'radians', 're', 'im', 'conj']:
    E(_n, 'Z', fam='B', tol=4, c10=_n not in ('re', 'im', 'conj', 'sign'))
E('atan2', 'x x', fam='B', tol=4)
E('hypot', 'x x', fam='B', tol=4)
E('power', 'Zp Z', fam='B', tol=4)
E('root', 'Zp m', fam='B', tol=4)
E('root', 'z m k', key='root_k', fam='B', tol=4)
E('nthroot', 'p m', fam='B', tol=4)
E('log', 'Zp P', key='log_b', fam='B', tol=4)
E('log', 'Zp', key='log_1', fam='B', tol=4)
E('ln', 'i:2:2100', key='ln_int', fam='B', tol=4)                      # log_int_cache (n <= 2000)
for _n in ['exp', 'ln', 'atan', 'sin', 'cos']:                         # series caches: 400 / 2500 / 3000 bit thresholds
    E(_n, 'x', key=_n + '_hi', fam='B', tol=4, cost=2, maxprec=3300)
E('powm1', 'p x', fam='B', tol=6)
E('fmod', 'x x', fam='B', tol=0, exact=True)
E('lambertw', 'Zp', fam='B', tol=6, ctxs=MPFP)
E('lambertw', 'z k', key='lambertw_k', fam='B', tol=6, ctxs=MPFP)
E('agm', 'Zp Zp', fam='H', tol=6)
E('cos_sin', 'Z', fam='B', tol=4, ret='seq')
E('cospi_sinpi', 'Z', fam='B', tol=4, ret='seq')
E('polar', 'z', fam='B', tol=4, ret='seq')
E('rect', 'p x', fam='B', tol=4)
E('unitroots', 'm', fam='B', tol=4, ret='seq', c10=True)
E('mag', 'Z', fam='L', exact=True, c10=False, ret='other')
E('nint_distance', 'Z', fam='L', exact=True, c10=False, ret='other')
E('chop', 'Z', fam='L', tol=0, c10=False)
E('almosteq', 'x x', fam='L', exact=True, c10=False, ret='other')
E('nstr', 'Z', fam='L', exact=True, c10=False, ret='other', kw={'n': (0.5, 'i:1:40')})
E('isint', 'Z', fam='L', exact=True, c10=False, ret='other')
E('ldexp', 'x k', fam='L', exact=True, c10=False)
E('frexp', 'x', fam='L', exact=True, c10=False, ret='seq')
E('convert', 'Z', fam='L', exact=True, c10=False)
E('linspace', 'k g m', fam='L', tol=2, ret='seq', c10=False)
E('arange', 'm', fam='L', tol=2, ret='seq', c10=False)

# --- C: gamma family / integer valued ------------------------------------------
for _n in ['gamma', 'rgamma', 'loggamma', 'factorial', 'fac2', 'digamma', 'harmonic', 'barnesg',
           'superfac', 'hyperfac']:
    E(_n, 'Zp' if _n in ('barnesg', 'superfac', 'hyperfac', 'loggamma') else 'Z', fam='C', tol=8,
      ctxs=ALL3 if _n in ('gamma', 'rgamma', 'loggamma', 'factorial') else MPFP,
      cost=2 if _n in ('barnesg', 'superfac', 'hyperfac') else 1,
      maxprec=400 if _n in ('barnesg', 'superfac', 'hyperfac') else 1200)
E('gamma', 'b', key='gamma_big', fam='C', tol=8)
E('gamma', 'P', key='gamma_vhi', fam='C', tol=8, cost=2, maxprec=3700)   # Taylor-coefficient cache above 1000 bits (x1.2 reuse window)
E('rgamma', 'P', key='rgamma_vhi', fam='C', tol=8, cost=3, maxprec=3700)
E('gamma', 'N:20,150,1000', key='gamma_int', fam='C', tol=8)
E('factorial', 'N:150,1000', key='factorial_int', fam='C', tol=8)
E('loggamma', 'b', key='loggamma_big', fam='C', tol=8)
E('psi', 'i:0:4 Zp', fam='C', tol=8)
E('polygamma', 'i:0:3 P', fam='C', tol=8)
E('beta', 'P P', fam='C', tol=8)
E('binomial', 'Z Z', fam='C', tol=8)
E('binomial', 'i:0:60 i:0:30', key='binomial_int', fam='C', tol=8)
E('rf', 'Z k', fam='C', tol=8)
E('ff', 'Z k', fam='C', tol=8)
E('gammaprod', 'vec vec', fam='C', tol=8)
E('bernoulli', 'N:40,150,400', fam='C', tol=8)
E('bernpoly', 'i:0:30 x', fam='C', tol=8)
E('eulerpoly', 'i:0:20 x', fam='C', tol=8)
E('fib', 'Z', fam='C', tol=8)
E('fib', 'N:250,300', key='fib_int', fam='C', tol=8)
E('bell', 'i:0:20 x', fam='C', tol=8, cost=2)
E('polyexp', 'k u', fam='C', tol=8)
E('cyclotomic', 'i:0:24 x', fam='C', tol=8)
E('mangoldt', 'i:1:400', fam='C', tol=8)
E('primepi', 'i:0:2000', fam='C', exact=True, c10=False, ret='other')
E('primepi2', 'N:2657,9000', fam='C', tol=8, c10=False, ret='other')      # >= 2657: the branch that computes in the iv context
E('bernfrac', 'N:40,150', fam='C', exact=True, c10=False, ret='other')
E('eulernum', 'N:40,100', fam='C', tol=0, exact=True)
E('eulernum', 'N:40,510', key='eulernum_exact', kw={'exact': '=1'}, fam='C', exact=True, c10=False, ret='other', cost=2)
E('stirling1', 'i:0:30 i:0:30', fam='C', tol=4)
E('stirling2', 'i:0:30 i:0:30', fam='C', tol=4)
E('stirling1', 'i:0:40 i:0:40', key='stirling1_exact', kw={'exact': '=1'}, fam='C', exact=True, c10=False, ret='other')
E('stirling2', 'i:0:40 i:0:40', key='stirling2_exact', kw={'exact': '=1'}, fam='C', exact=True, c10=False, ret='other')
E('factorial', 'N:1000,1500', key='factorial_big', fam='C', tol=8)
E('isprime', 'i:0:100000', fam='C', exact=True, c10=False, ret='other')
E('moebius', 'i:1:5000', fam='C', exact=True, c10=False, ret='other')
E('list_primes', 'i:0:500', fam='C', exact=True, c10=False, ret='other')
E('fraction', 'k m', fam='L', exact=True, c10=False, ret='other')

# --- D: zeta family ---------------------------------------------------------------
E('zeta', 's', fam='D', tol=8, cost=2)
E('zeta', 'N:2,60,200', key='zeta_int', fam='D', tol=8)
E('zeta', 's P', key='hurwitz', fam='D', tol=8, cost=2, maxprec=400)
E('zeta', 's =1 i:1:2', key='zeta_deriv', fam='D', tol=8, cost=3, maxprec=200)
E('zeta', lambda r, c: {'t': 'mpc', 'v': [[0, '1', -1], mpf_spec(r, 7, 12, sign=0, maxwidth=53)['v']]},
  key='zeta_rs', fam='D', tol=10, cost=2, maxprec=200)      # heights 128..4096: the sieved zeta sum (prime sieve caches)
E('zeta', lambda r, c: {'t': 'mpc', 'v': [[0, '1', -1], mpf_spec(r, 15, 20, sign=0, maxwidth=53)['v']]},
  key='zeta_rs_hi', fam='D', tol=10, cost=2, maxprec=64, ctxs=MPFP)      # |t| > 500*prec: the Riemann-Siegel path (rs_zeta, coefficient cache in ctx._mp)
E('siegelz', lambda r, c: mpf_spec(r, 15, 20, sign=0, maxwidth=53), key='siegelz_hi', fam='D', tol=10, cost=2, maxprec=64, ctxs=MPFP)
E('altzeta', 's', fam='D', tol=8, cost=2)
E('dirichlet', 's ivec', fam='D', tol=8, cost=2, maxprec=300)
E('polylog', 'k W', fam='D', tol=8, cost=2)
E('polylog', 'P W', key='polylog_r', fam='D', tol=8, cost=2, maxprec=300)
E('lerchphi', 'W m P', fam='D', tol=8, cost=3, maxprec=200)
E('clsin', 'm x', fam='D', tol=8, cost=2)
E('clcos', 'm x', fam='D', tol=8, cost=2)
E('stieltjes', 'i:0:6', fam='D', tol=10, cost=2, maxprec=120)
E('primezeta', 'g', fam='D', tol=8, cost=3, maxprec=150)
E('siegelz', 'T', fam='D', tol=8, cost=2, maxprec=300)
E('siegeltheta', 'T', fam='D', tol=8)
E('grampoint', 'i:0:60', fam='D', tol=8, cost=2, maxprec=200)
E('zetazero', 'i:1:12', fam='D', tol=8, cost=3, maxprec=120)
E('nzeros', 'T', fam='D', exact=True, c10=False, ret='other', cost=3, maxprec=100)
E('backlunds', 'T', fam='D', tol=10, cost=2, maxprec=200)
E('riemannr', 'g', fam='D', tol=8, cost=2, maxprec=300)
E('secondzeta', 'g', fam='D', tol=10, cost=3, maxprec=80)

# --- E: error function / exponential integrals -----------------------------------------
for _n in ['erf', 'erfc', 'erfi', 'npdf', 'ncdf', 'ei', 'e1', 'li', 'si', 'ci', 'shi', 'chi', 'fresnels', 'fresnelc']:
    E(_n, 'Zp' if _n in ('li',) else 'Z', fam='E', tol=8, ctxs=MPFP)
E('erfinv', 'u', fam='E', tol=8)
E('expint', 'h Zp', fam='E', tol=8, cost=2)
E('gammainc', 'P P', fam='E', tol=8, cost=2)
E('gammainc', 'Zp p p', key='gammainc3', fam='E', tol=8, cost=2, kw={'regularized': (0.3, '=1')})
E('betainc', 'P P v v', fam='E', tol=8, cost=2, kw={'regularized': (0.3, '=1')})

# --- F: Bessel and friends -----------------------------------------------------------
for _n in ['besselj', 'bessely', 'besseli', 'besselk', 'hankel1', 'hankel2', 'struveh', 'struvel',
           'ber', 'bei', 'ker', 'kei', 'angerj', 'webere']:
    E(_n, 'o Zp', fam='F', tol=8, cost=2, maxprec=600)
E('besselj', 'k p', key='besselj_deriv', kw={'derivative': 'i:0:2'}, fam='F', tol=8, cost=2, maxprec=400)
E('j0', 'Z', fam='F', tol=8)
E('j1', 'Z', fam='F', tol=8)
for _n in ['airyai', 'airybi']:
    E(_n, 'Z', fam='F', tol=8, cost=2, maxprec=600)
    E(_n, 'x', key=_n + '_d', kw={'derivative': 'i:-1:2'}, fam='F', tol=8, cost=2, maxprec=300)
E('airyaizero', 'm', fam='F', tol=8, cost=2, maxprec=300, kw={'derivative': (0.3, 'i:0:1')})
E('airybizero', 'm', fam='F', tol=8, cost=2, maxprec=300)
E('besseljzero', 'i:0:4 m', fam='F', tol=8, cost=3, maxprec=200, kw={'derivative': (0.3, 'i:0:1')})
E('besselyzero', 'i:0:4 m', fam='F', tol=8, cost=3, maxprec=200)
E('scorergi', 'x', fam='F', tol=8, cost=2, maxprec=300)
E('scorerhi', 'x', fam='F', tol=8, cost=2, maxprec=300)
E('coulombf', 'i:0:4 x p', fam='F', tol=8, cost=2, maxprec=400)
E('coulombg', 'i:0:4 x p', fam='F', tol=8, cost=3, maxprec=300)
E('coulombc', 'i:0:4 x', fam='F', tol=8, cost=2, maxprec=400)
E('lommels1', 'u u p', fam='F', tol=8, cost=2, maxprec=300)
E('lommels2', 'u u p', fam='F', tol=8, cost=3, maxprec=200)
E('whitm', 'u u p', fam='F', tol=8, cost=2, maxprec=300)
E('whitw', 'u u p', fam='F', tol=8, cost=2, maxprec=300)
E('hyperu', 'P P p', fam='F', tol=8, cost=2, maxprec=300)
for _n in ['pcfd', 'pcfu', 'pcfv']:
    E(_n, 'h x', fam='F', tol=8, cost=2, maxprec=300)
E('pcfw', 'u x', fam='F', tol=8, cost=2, maxprec=300)

# --- G: hypergeometric / orthogonal polynomials ------------------------------------------
E('hyp0f1', 'P Z', fam='G', tol=8)
E('hyp1f1', 'x P Z', fam='G', tol=8, cost=2)
E('hyp1f2', 'x P P x', fam='G', tol=8, cost=2)
E('hyp2f0', 'k x u', fam='G', tol=8, cost=2, maxprec=400)
E('hyp2f1', 'x x P W', fam='G', tol=8, cost=2)
E('hyp2f1', 'x x P Z', key='hyp2f1_out', fam='G', tol=10, cost=3, maxprec=300)
E('hyp2f2', 'x x P P x', fam='G', tol=8, cost=2)
E('hyp2f3', 'x x P P P x', fam='G', tol=8, cost=2)
E('hyp3f2', 'x x x P P W', fam='G', tol=8, cost=2)
E('hyper', [lambda r, c: L(*[real_spec(r, -3, 3, cfg=c) for _ in range(r.randint(0, 2))]),
            lambda r, c: L(*[real_spec(r, -2, 3, sign=0, cfg=c) for _ in range(r.randint(1, 3))]), 'W'],
  fam='G', tol=8, cost=2, maxprec=400)
E('meijerg', [lambda r, c: L(L(), L()), lambda r, c: L(L(I(0)), L()), 'p'], fam='G', tol=8, cost=3, maxprec=200)
E('appellf1', 'u u u P w w', fam='G', tol=8, cost=3, maxprec=200)
E('legendre', 'n u', fam='G', tol=8, cost=2)
E('legendre', 'x u', key='legendre_r', fam='G', tol=8, cost=2, maxprec=400)
E('chebyt', 'n u', fam='G', tol=8, cost=2)
E('chebyu', 'n u', fam='G', tol=8, cost=2)
E('hermite', 'n x', fam='G', tol=8, cost=2)
E('hermite', 'u Zp', key='hermite_r', fam='G', tol=8, cost=2, maxprec=300)
E('laguerre', 'n u x', fam='G', tol=8, cost=2)
E('gegenbauer', 'n P u', fam='G', tol=8, cost=2)
E('jacobi', 'n P P u', fam='G', tol=8, cost=2)
E('legenp', 'n i:0:2 u', fam='G', tol=8, cost=2, maxprec=400)
E('legenq', 'n i:0:2 u', fam='G', tol=8, cost=3, maxprec=300)
E('spherharm', 'i:0:5 i:0:2 x x', fam='G', tol=8, cost=2, maxprec=300)

# --- H: elliptic / theta / q-functions -----------------------------------------------------
E('ellipk', 'mm', fam='H', tol=8)
E('ellipe', 'mm', fam='H', tol=8, cost=2)
E('ellipf', 'x mm', fam='H', tol=8, cost=2, maxprec=400)
E('ellipe', 'x mm', key='ellipe2', fam='H', tol=8, cost=2, maxprec=400)
E('ellippi', 'u mm', fam='H', tol=8, cost=2, maxprec=300)
E('ellippi', 'u x mm', key='ellippi3', fam='H', tol=8, cost=3, maxprec=200)
E('elliprf', 'P P P', fam='H', tol=8, cost=2)
E('elliprc', 'P P', fam='H', tol=8)
E('elliprj', 'P P P P', fam='H', tol=8, cost=2)
E('elliprd', 'P P P', fam='H', tol=8, cost=2)
E('elliprg', 'P P P', fam='H', tol=8, cost=2)
E('jtheta', 'i:1:4 Z q', fam='H', tol=8, cost=2, maxprec=600)
E('jtheta', 'i:1:4 x q i:1:2', key='jtheta_d', fam='H', tol=8, cost=2, maxprec=300)
E('ellipfun', [lambda r, c: {'t': 'str', 'v': r.choice(['sn', 'cn', 'dn', 'sc', 'nd'])}, 'x', 'v'], fam='H', tol=8, cost=2, maxprec=400)
E('kleinj', [lambda r, c: {'t': 'mpc', 'v': [mpf_spec(r, -3, 0, maxwidth=200)['v'], mpf_spec(r, 0, 2, sign=0, maxwidth=200)['v']]}],
  fam='H', tol=10, cost=2, maxprec=300)
E('qfrom', [], kw={'m': 'v'}, fam='H', tol=8)
E('mfrom', [], kw={'q': 'v'}, fam='H', tol=8, cost=2, maxprec=400)
E('kfrom', [], kw={'q': 'v'}, fam='H', tol=8, cost=2, maxprec=400)
E('taufrom', [], kw={'m': 'v'}, fam='H', tol=8)
E('qbarfrom', [], kw={'m': 'v'}, fam='H', tol=8)
E('qp', 'W q', fam='H', tol=8, cost=2, maxprec=300)
E('qp', 'W q n', key='qp_n', fam='H', tol=8, cost=2, maxprec=300)
E('qgamma', 'P v', fam='H', tol=8, cost=2, maxprec=200)
E('qfac', 'P v', fam='H', tol=8, cost=2, maxprec=200)
E('qhyper', [lambda r, c: L(real_spec(r, -3, 0, cfg=c)), lambda r, c: L(real_spec(r, -3, 0, sign=0, cfg=c)), 'v', 'u'],
  fam='H', tol=8, cost=2, maxprec=200)
E('eta', [lambda r, c: {'t': 'mpc', 'v': [mpf_spec(r, -3, 0, maxwidth=200)['v'], mpf_spec(r, -1, 2, sign=0, maxwidth=200)['v']]}],
  fam='H', tol=8, cost=2, maxprec=300)

# --- I: calculus with callbacks --------------------------------------------------------------
QK = {'maxdegree': (0.2, 'i:3:6'), 'error': (0.15, '=1'), 'verbose': (0.0, '=0')}
E('quad', 'cb:expneg Iany', fam='I', tol=10, cost=2, c10=False, maxprec=300, kw=QK, ctxs=MPFP)
E('quad', 'cb:lorentz Iany', key='quad_lor', fam='I', tol=10, cost=2, c10=False, maxprec=300, kw=QK, ctxs=MPFP)
E('quad', 'cb:poly I3', key='quad_split', fam='I', tol=10, cost=2, c10=False, maxprec=300, ctxs=MPFP)
E('quadgl', 'cb:poly Iab', fam='I', tol=10, cost=2, c10=False, maxprec=300)
E('quadgl', 'cb:cosexp I01', key='quadgl_ce', fam='I', tol=10, cost=2, c10=False, maxprec=300)
E('quadts', 'cb:cosexp Iab', fam='I', tol=10, cost=2, c10=False, maxprec=300, ctxs=MPFP)
E('quad', 'cb:f2d I01 Iab', key='quad2d', fam='I', tol=10, cost=3, c10=False, maxprec=100)
E('quad', ['cb:gauss', 'Iinf'], key='quad_method', fam='I', tol=10, cost=2, c10=False, maxprec=200,
  kw={'method': lambda r, c: {'t': 'str', 'v': r.choice(['tanh-sinh', 'gauss-legendre'])}})
E('quadosc', ['cb:sinc_lim', 'I1inf'], kw={'omega': '=1'}, fam='I', tol=10, cost=3, c10=False, maxprec=100)
E('nsum', ['cb:invpow', 'I1inf'], fam='I', tol=10, cost=2, c10=False, maxprec=300,
  kw={'method': (0.5, lambda r, c: {'t': 'str', 'v': r.choice(['r+s', 'richardson', 'shanks', 'levin', 'alternating', 'euler-maclaurin', 'direct', 'r+s+e', 'l'])})})
E('nsum', ['cb:altinv', 'I1inf'], key='nsum_alt', fam='I', tol=10, cost=2, c10=False, maxprec=300)
E('nsum', ['cb:invpow', 'I1inf'], key='nsum_levin', fam='I', tol=10, cost=2, c10=False, maxprec=200,     # the Levin / Sidi accelerator objects
  kw={'method': lambda r, c: {'t': 'str', 'v': r.choice(['levin', 'l', 'sidi', 'r+s+l', 'levin', 'alternating'])}})
E('nsum', ['cb:geom', lambda r, c: L(I(0), {'t': 'attr', 'v': 'inf'})], key='nsum_geom_levin', fam='I', tol=10, cost=2, c10=False, maxprec=200,
  kw={'method': lambda r, c: {'t': 'str', 'v': r.choice(['levin', 'sidi', 'shanks', 'richardson'])}})
E('nsum', ['cb:geom', lambda r, c: L(I(0), {'t': 'attr', 'v': 'inf'})], key='nsum_geom', fam='I', tol=10, cost=2, c10=False, maxprec=300)
E('nsum', ['cb:invpow', lambda r, c: L(I(1), I(r.randint(3, 30)))], key='nsum_fin', fam='I', tol=10, cost=1, c10=False, ctxs=MPFP)
E('nprod', ['cb:prodterm', 'I1inf'], fam='I', tol=10, cost=3, c10=False, maxprec=120)
E('sumem', ['cb:invpow', 'I1inf'], fam='I', tol=10, cost=3, c10=False, maxprec=150)
E('sumap', ['cb:invpow', 'I1inf'], fam='I', tol=10, cost=3, c10=False, maxprec=150)
E('limit', ['cb:limseq', 'attr:inf'], fam='I', tol=10, cost=2, c10=False, maxprec=200)
E('limit', ['cb:sinc_lim', '=0'], key='limit0', fam='I', tol=10, cost=2, c10=False, maxprec=200)
E('diff', 'cb:cosexp x', fam='I', tol=10, cost=2, c10=False, maxprec=300)
E('diff', 'cb:expneg x i:0:4', key='diff_n', fam='I', tol=10, cost=2, c10=False, maxprec=300,
  kw={'singular': (0.2, '=1'), 'direction': (0.3, 'c:-1,0,1'), 'method': (0.2, lambda r, c: {'t': 'str', 'v': r.choice(['step', 'quad'])})})
E('diff', ['cb:f2d', lambda r, c: {'t': 'tuple', 'v': [real_spec(r, -2, 2, cfg=c), real_spec(r, -2, 2, cfg=c)]},
           lambda r, c: {'t': 'tuple', 'v': [I(r.randint(0, 2)), I(r.randint(0, 2))]}],
  key='diff_partial', fam='I', tol=10, cost=2, c10=False, maxprec=200)
E('diffun', 'cb:cosexp i:1:3 x', op='wrapcall:diffun', fam='I', tol=10, cost=2, c10=False, maxprec=200)
E('taylor', 'cb:cosexp x i:0:6', fam='I', tol=10, cost=2, c10=False, ret='seq', maxprec=300, ctxs=MPFP)
E('pade', [lambda r, c: L(*[{'t': 'frac', 'v': [1, math.factorial(i)]} for i in range(7)]), 'i:1:3', 'i:1:3'],
  fam='I', tol=10, cost=2, c10=False, ret='seq', maxprec=300)
E('differint', 'cb:poly p v', fam='I', tol=10, cost=3, c10=False, maxprec=100)
E('chebyfit', ['cb:cosexp', 'Iab', 'i:2:6'], fam='I', tol=10, cost=2, c10=False, ret='seq', maxprec=200, kw={'error': (0.3, '=1')})
E('fourier', ['cb:poly', lambda r, c: L(I(-1), I(1)), 'i:1:4'], fam='I', tol=10, cost=3, c10=False, ret='seq', maxprec=100)
E('polyval', 'poly Z', fam='I', tol=4, c10=False, kw={'derivative': (0.3, '=1')}, ctxs=MPFP)
E('polyroots', 'poly', fam='I', tol=10, cost=2, c10=False, ret='seq', maxprec=300,
  kw={'maxsteps': (0.5, '=200'), 'extraprec': (0.5, '=200'), 'error': (0.2, '=1')})
_SOLV = ['secant', 'mnewton', 'halley', 'muller', 'illinois', 'pegasus', 'anderson', 'ridder', 'anewton', 'bisect', 'newton', 'mdnewton']
E('findroot', ['cb:sqminus', 'g'], fam='I', tol=10, cost=2, c10=False, maxprec=300, ctxs=MPFP)
E('findroot', ['cb:cubic', lambda r, c: {'t': 'tuple', 'v': [I(1), I(4)]}], key='findroot_bracket', fam='I', tol=10, cost=2, c10=False, maxprec=300,
  kw={'solver': lambda r, c: {'t': 'str', 'v': r.choice(['illinois', 'pegasus', 'anderson', 'ridder', 'bisect', 'secant'])},
      'verify': (0.5, '=0')}, ctxs=MPFP)
E('findroot', ['cb:sqminus', 'g'], key='findroot_solver', fam='I', tol=10, cost=2, c10=False, maxprec=300,
  kw={'solver': lambda r, c: {'t': 'str', 'v': r.choice(['secant', 'mnewton', 'halley', 'muller', 'anewton', 'mdnewton'])},
      'verify': (0.5, '=0')})
E('findroot', ['cb:sys2', lambda r, c: {'t': 'tuple', 'v': [I(1), I(1)]}], key='findroot_2d', fam='I', tol=10, cost=2, c10=False, ret='matrix', maxprec=200)
E('jacobian', ['cb:sys2m', lambda r, c: {'t': 'tuple', 'v': [real_spec(r, -2, 2, cfg=c), real_spec(r, -2, 2, cfg=c)]}],
  fam='I', tol=10, cost=2, c10=False, ret='matrix', maxprec=300)
E('odefun', ['cb:ode_exp', '=0', '=1', 'v'], op='wrapcall:odefun', fam='I', tol=10, cost=2, c10=False, maxprec=200)
E('odefun', ['cb:ode_osc', '=0', lambda r, c: L(I(1), I(0)), 'v'], op='wrapcall:odefun', key='odefun_vec', fam='I', tol=10, cost=3, c10=False, ret='seq', maxprec=100)
E('invertlaplace', ['cb:lap_exp', 'P'], fam='I', tol=10, cost=3, c10=False, maxprec=100,
  kw={'method': lambda r, c: {'t': 'str', 'v': r.choice(['talbot', 'stehfest', 'dehoog'])}})
E('invertlaplace', ['cb:lap_exp', 'P'], key='invertlaplace_deg', fam='I', tol=10, cost=2, c10=False, maxprec=70,      # the rule singletons
  kw={'method': lambda r, c: {'t': 'str', 'v': r.choice(['stehfest', 'stehfest', 'talbot', 'dehoog'])}, 'degree': (0.7, 'c:8,12,15,16,16,20,30')})
E('invertlaplace', ['cb:lap_exp', 'P'], key='invertlaplace_stehfest16', fam='I', tol=10, cost=2, c10=False, maxprec=70,     # one order at many precisions
  kw={'method': '=stehfest', 'degree': 'c:15,16,16'})
E('invertlaplace', ['cb:lap_sin', 'P'], key='invertlaplace_sin', fam='I', tol=10, cost=2, c10=False, maxprec=70,
  kw={'method': lambda r, c: {'t': 'str', 'v': r.choice(['stehfest', 'talbot', 'dehoog'])}, 'degree': (0.5, 'c:8,12,16,20,30')})
E('richardson', 'vec', fam='I', tol=10, c10=False, ret='seq', ctxs=MPFP)
E('shanks', 'vec', fam='I', tol=10, c10=False, ret='other')
E('autoprec', 'cb:gammaf P', op='wrapcall:autoprec', fam='I', tol=10, cost=2, c10=False, maxprec=200)
E('autoprec', 'cb:divf =1', op='wrapcall:autoprec', key='autoprec_raise', fam='I', tol=10, cost=2, c10=False, maxprec=200)
E('memoize', 'cb:gammaf P', op='wrapcall:memoize', fam='L', tol=8, c10=False)
E('maxcalls', 'cb:gammaf =3 P', op='wrapcall:maxcalls', fam='L', tol=8, c10=False)
for _m in ['workprec', 'workdps', 'extraprec', 'extradps']:
    E(_m, [('i:1:400' if _m.startswith('work') else 'i:-20:60'), 'cb:gammaf', 'P'], op='deco:' + _m, key='deco_' + _m, fam='L', tol=8, c10=False,
      kw={'normalize_output': (0.5, 'c:0,1')})
    E(_m, [('i:1:400' if _m.startswith('work') else 'i:-20:60'), 'cb:tuplef', 'P'], op='deco:' + _m, key='deco_t_' + _m, fam='L', tol=8, c10=False, ret='seq',
      kw={'normalize_output': (0.5, 'c:0,1')})

# --- J: identification -----------------------------------------------------------------------------
E('pslq', [lambda r, c: L({'t': 'call', 'f': 'mpf', 'v': [I(1)]}, {'t': 'const', 'v': 'pi'}, {'t': 'call', 'f': 'sqrt', 'v': [I(2)]},
                          {'t': 'call', 'f': 'fadd', 'v': [{'t': 'const', 'v': 'pi'}, {'t': 'call', 'f': 'sqrt', 'v': [I(2)]}]})],
  fam='J', exact=True, cost=2, c10=False, ret='other', maxprec=200)
E('findpoly', [lambda r, c: {'t': 'call', 'f': 'sqrt', 'v': [I(r.randint(2, 7))]}, 'i:2:4'], fam='J', exact=True, cost=2, c10=False, ret='other', maxprec=200)
E('identify', [lambda r, c: {'t': 'call', 'f': 'sqrt', 'v': [I(r.randint(2, 7))]}], fam='J', exact=True, cost=2, c10=False, ret='other', maxprec=100)

# --- K: matrices -----------------------------------------------------------------------------------------
for _n in ['det', 'inverse', 'lu', 'LU_decomp', 'qr', 'cond', 'norm', 'mnorm', 'expm', 'hessenberg', 'schur', 'eig', 'svd']:
    E(_n, 'mat', fam='K', tol=10, cost=2 if _n in ('eig', 'svd', 'schur', 'expm', 'qr') else 1, c10=False,
      ret='num' if _n in ('det', 'cond', 'norm', 'mnorm') else 'matrix', maxprec=300,
      ctxs=('mp',) if _n in ('eig', 'svd', 'schur', 'qr', 'hessenberg') else ('mp', 'fp'))
E('lu_solve', 'mat3 colvec3', fam='K', tol=10, c10=False, ret='matrix', maxprec=400, ctxs=('mp', 'fp'))
E('qr_solve', 'mat3 colvec3', fam='K', tol=10, c10=False, ret='seq', maxprec=400)
E('cholesky', 'spd', fam='K', tol=10, c10=False, ret='matrix', maxprec=400)
E('eigsy', 'sym', fam='K', tol=10, cost=2, c10=False, ret='seq', maxprec=300)
E('eigh', 'sym', fam='K', tol=10, cost=2, c10=False, ret='seq', maxprec=300)
E('sqrtm', 'spd', fam='K', tol=10, cost=2, c10=False, ret='matrix', maxprec=200)
E('logm', 'spd', fam='K', tol=10, cost=3, c10=False, ret='matrix', maxprec=150)
E('powm', 'spd v', fam='K', tol=10, cost=3, c10=False, ret='matrix', maxprec=150)
E('cosm', 'smallmat', fam='K', tol=10, cost=2, c10=False, ret='matrix', maxprec=200)
E('sinm', 'smallmat', fam='K', tol=10, cost=2, c10=False, ret='matrix', maxprec=200)
E('gauss_quadrature', 'i:2:6', fam='K', tol=10, cost=2, c10=False, ret='seq', maxprec=200,
  kw={'qtype': (0.5, lambda r, c: {'t': 'str', 'v': r.choice(['legendre', 'hermite', 'laguerre', 'chebyshev1'])})})
E('mul', 'mat3 mat3', op='op:mul', key='mat_mul', fam='K', tol=10, c10=False, ret='matrix', ctxs=('mp', 'fp'))
E('add', 'mat3 mat3', op='op:add', key='mat_add', fam='K', tol=10, c10=False, ret='matrix')
E('pow', 'mat3 i:-2:4', op='op:pow', key='mat_pow', fam='K', tol=10, c10=False, ret='matrix', maxprec=400)
E('hilbert', 'i:1:6', fam='K', tol=4, c10=False, ret='matrix')
E('randmatrix', 'i:1:4', fam='K', tol=0, c10=False, ret='matrix')
E('rand', [], fam='L', tol=0, c10=False)

# --- rational operands (fractions.Fraction, mpmath's mpq) and rational / string construction -----------------------------
def _frac(r, c):
    q = r.choice([2, 3, 3, 5, 7, 10, 12, 97, 1 << 40, 10 ** 30 + 57])
    p = r.choice([1, -1, 2, 5, -7, 22, 355, 10 ** 20 + 1, r.randint(-10 ** 6, 10 ** 6) or 1])
    return {'t': r.choice(['frac', 'mpq']), 'v': [p, q]}
def _smallfrac(r, c):
    return {'t': r.choice(['frac', 'mpq']), 'v': [r.choice([1, 1, 2, 3, -1, 5, 7]), r.choice([2, 2, 3, 4, 5, 7])]}
def _ratstr(r, c):
    return {'t': 'str', 'v': r.choice(['1/3', '22/7', '-5/9', '1e-5', '0.1', '3.14159265358979323846264338327950288', '2/3+1/7j',
                                        '1.5e300', '%d/%d' % (r.randint(1, 10 ** 9), r.randint(1, 10 ** 9))])}
for _o in ['add', 'sub', 'mul', 'truediv']:
    E(_o, ['x', _frac], op='op:' + _o, key='op_' + _o + '_frac', fam='A', tol=2)
    E(_o, [_frac, 'x'], op='op:' + _o, key='op_r' + _o + '_frac', fam='A', tol=2)
    E(_o, ['z', _frac], op='op:' + _o, key='op_' + _o + '_cfrac', fam='A', tol=2)
E('pow', ['p', _smallfrac], op='op:pow', key='op_pow_frac', fam='A', tol=4)
E('pow', ['x', _smallfrac], op='op:pow', key='op_pow_negfrac', fam='A', tol=4)
E('pow', ['z', _smallfrac], op='op:pow', key='op_pow_cfrac', fam='A', tol=4)
E('mpf', [_ratstr], op='new:mpf', key='new_mpf_ratstr', fam='A', tol=0, exact=True,
  kw={'prec': (0.3, 'i:1:300'), 'rounding': (0.3, lambda r, c: {'t': 'str', 'v': r.choice('nfcdu')})})
E('mpc', [_ratstr], op='new:mpc', key='new_mpc_str', fam='A', tol=0, exact=True)
# construction from numbers that are not the context's own: another context's mpf/mpc, a zero-width interval,
# a user type with the _mpmath_ hook (all documented inputs of mpf(); the result must be rounded like any other)
def _outsider(r, c):
    s = mpf_spec(r, -6, 5); s['owner'] = '*'
    return s
def _outsider_c(r, c):
    return {'t': 'mpc', 'v': [mpf_spec(r, -5, 4)['v'], mpf_spec(r, -5, 4)['v']], 'owner': '*'}
def _ivpoint(r, c):
    v = mpf_spec(r, -6, 5)['v']
    return {'t': 'iv', 'v': [v, v]}
def _usernum(r, c):
    return {'t': 'mpmathobj', 'v': mpf_spec(r, -6, 5)['v']}
_KWP = {'prec': (0.3, 'i:1:300'), 'dps': (0.15, 'i:1:60'), 'rounding': (0.3, lambda r, c: {'t': 'str', 'v': r.choice('nfcdu')})}
E('mpf', [_outsider], op='new:mpf', key='new_mpf_outsider', fam='A', tol=0, exact=True, kw=_KWP)
E('mpc', [_outsider, _outsider], op='new:mpc', key='new_mpc_outsider', fam='A', tol=0, exact=True)
E('mpc', [_outsider_c], op='new:mpc', key='new_mpc_outsider_c', fam='A', tol=0, exact=True)
E('mpf', [_ivpoint], op='new:mpf', key='new_mpf_ivpoint', fam='A', tol=0, exact=True, kw=_KWP)
E('mpf', [_usernum], op='new:mpf', key='new_mpf_usernum', fam='A', tol=0, exact=True, kw=_KWP)
E('mpc', [_usernum, 'x'], op='new:mpc', key='new_mpc_usernum', fam='A', tol=0, exact=True)
def _ownmpf(r, c):
    return mpf_spec(r, -6, 5, maxwidth=(c or {}).get('maxwidth'))      # the left operand's context rules: keep it mp's own
for _o in ['add', 'mul']:
    E(_o, [_ownmpf, _outsider], op='op:' + _o, key='op_' + _o + '_outsider', fam='A', tol=0, exact=True)
    E(_o, [_ownmpf, _usernum], op='op:' + _o, key='op_' + _o + '_usernum', fam='A', tol=0, exact=True)
E('sqrt', [_outsider], key='sqrt_outsider', fam='B', tol=2)
E('exp', [_usernum], key='exp_usernum', fam='B', tol=2)
E('mpmathify', [_ratstr], key='mpmathify_str', fam='A', tol=0, exact=True)
E('fadd', ['x', _frac], key='fadd_frac', fam='L', tol=2, kw={'prec': (0.3, 'i:1:300')})
E('fmul', ['x', _frac], key='fmul_frac', fam='L', tol=2, kw={'prec': (0.3, 'i:1:300')})
E('power', ['p', _smallfrac], key='power_frac', fam='B', tol=4)
E('sqrt', ['n'], key='sqrt_int', fam='B', tol=2)
E('sqrt', ['k'], key='sqrt_negint', fam='B', tol=2)
E('root', ['p', 'i:2:9'], key='root_real_pos', fam='B', tol=4)

# --- natural failures deep inside routines that step the precision (robust triggers for seeded changes c11d, c11g) -------------
def _zeta_rs_fail(r, c):
    return r.choice([{'t': 'mpc', 'v': [[0, '0', 0], mpf_spec(r, 300, 340, sign=0, maxwidth=53)['v']]},            # |t| ~ 1e100: OverflowError in the error estimate
                     {'t': 'mpc', 'v': [[0, '1', -1], mpf_spec(r, 900, 1000, sign=r.randint(0, 1), maxwidth=53)['v']]},
                     {'t': 'mpc', 'v': [[0, '1', -1], mpf_spec(r, 19, 21, sign=0, maxwidth=53)['v']]}])
E('zeta', [_zeta_rs_fail], key='zeta_rs_fail', fam='D', tol=10, cost=2, maxprec=120, kw={'derivative': (0.4, 'c:-1,0,2,4')})
E('findroot', ['cb:multroot', lambda r, c: {'t': 'float', 'v': float(r.choice([0.3, 0.7, 1.3, 2.6, 3.4])).hex()}], key='findroot_anewton_mult', fam='I', tol=10, cost=2, c10=False,
  maxprec=200, kw={'solver': '=anewton', 'verify': (0.5, '=0'), 'maxsteps': (0.3, 'i:5:40')})

# --- result paths that round inside a raised-precision block (found by the round-9 sub-agent) ---------------------------------
E('gammainc', ['m', 'P'], key='gammainc_int_reg', fam='E', tol=8, cost=2, maxprec=400, kw={'regularized': (0.8, '=1')})
E('gammainc', ['m', 'P', 'g'], key='gammainc_int_ab', fam='E', tol=8, cost=2, maxprec=400, kw={'regularized': (0.5, '=1')})
E('hyper', [lambda r, c: L(*[real_spec(r, -2, 2, cfg=c) for _ in range(r.randint(2, 3))]), lambda r, c: L(),
            lambda r, c: real_spec(r, -14, -8, cfg=c)], key='hyper_borel', fam='G', tol=10, cost=2, maxprec=300)
for _m in ['workprec', 'workdps', 'extraprec', 'extradps']:
    E(_m, [('i:60:400' if _m == 'workprec' else ('i:20:90' if _m == 'workdps' else 'i:1:60')), 'cb:gammaf', 'P'], op='deco:' + _m, key='deco_norm_' + _m,
      fam='L', tol=8, kw={'normalize_output': '=1'})

# --- large half-integers at high precision: gamma goes through the double-factorial table of libintmath there ---------
def _halfbig(r, c):
    return {'t': 'float', 'v': float(r.randint(400, 1300) + 0.5).hex()}
def _neghalfbig(r, c):
    return {'t': 'float', 'v': float(-(r.randint(400, 1300) + 0.5)).hex()}
E('gamma', [_halfbig], key='gamma_halfint_hi', fam='C', tol=8, cost=2, maxprec=2200)
E('rgamma', [_neghalfbig], key='rgamma_halfint_hi', fam='C', tol=8, cost=2, maxprec=2200)
E('loggamma', [_halfbig], key='loggamma_halfint_hi', fam='C', tol=8, cost=2, maxprec=2200)
E('factorial', [_halfbig], key='factorial_halfint_hi', fam='C', tol=8, cost=2, maxprec=2200)

# --- the Riemann-Siegel routines are public entry points of their own (mp.rs_zeta, mp.rs_z), not only internals of zeta/siegelz
def _rs_arg(r, c):
    k = r.random()
    if k < 0.35:
        return r.choice([I(1), I(2), I(0), {'t': 'float', 'v': (0.5).hex()}, {'t': 'attr', 'v': 'nan'}, {'t': 'attr', 'v': 'inf'}, I(1000)])
    if k < 0.7:
        return {'t': 'mpc', 'v': [[0, '1', -1], mpf_spec(r, 12, 16, sign=0, maxwidth=53)['v']]}        # 0.5 + i t, t in [4096, 65536)
    return {'t': 'mpc', 'v': [mpf_spec(r, -2, 2, maxwidth=53)['v'], mpf_spec(r, 12, 16, sign=0, maxwidth=53)['v']]}
E('rs_zeta', [_rs_arg], key='rs_zeta_direct', fam='D', tol=10, cost=2, maxprec=64, ctxs=MPFP, kw={'derivative': (0.2, 'i:0:5')})
E('rs_z', [lambda r, c: r.choice([I(0), I(1000), I(1), {'t': 'attr', 'v': 'nan'}]) if r.random() < 0.4 else real_spec(r, 12, 16, sign=0, cfg=c)],
  key='rs_z_direct', fam='D', tol=10, cost=2, maxprec=64, ctxs=MPFP, kw={'derivative': (0.2, 'i:0:3')})

# --- rational parameters given as (p, q) tuples (documented for zeta's second argument and the hypergeometric
#     parameter lists); the numerator as int, float or mpf - all compare equal to the same cache key ----------------
def _rat_tuple(r, c):
    p = r.choice([1, 3, 5, 7, 7, 9, -1, -3, 11, 2, 4])
    q = r.choice([2, 2, 2, 3, 4])
    form = r.choice(['int', 'int', 'float', 'mpf'])
    num = I(p) if form == 'int' else ({'t': 'float', 'v': float(p).hex()} if form == 'float' else
                                      {'t': 'mpf', 'v': [1 if p < 0 else 0, '%x' % abs(p), 0]})
    return {'t': 'tuple', 'v': [num, I(q)]}
E('zeta', ['s', _rat_tuple], key='zeta_rat_tuple', fam='D', tol=8, cost=2, maxprec=300)
E('hyper', [lambda r, c: L(_rat_tuple(r, c)), lambda r, c: L(), 'W'], key='hyper_rat_tuple', fam='G', tol=8, cost=2, maxprec=300)
E('hyp1f1', [_rat_tuple, 'P', 'x'], key='hyp1f1_rat_tuple', fam='G', tol=8, cost=2, maxprec=300)
E('hyp2f1', [_rat_tuple, 'x', 'P', 'W'], key='hyp2f1_rat_tuple', fam='G', tol=8, cost=2, maxprec=300)
E('besselj', [lambda r, c: {'t': 'float', 'v': float(r.choice([1, 3, 5, 7, 9, -1, -3, 11]) / 2.0).hex()}, 'P'], key='besselj_half', fam='F', tol=8, cost=2, maxprec=300)
E('hyp1f1', [lambda r, c: {'t': 'float', 'v': float(r.choice([1, 3, 5, 7, 9, 11]) / r.choice([2.0, 4.0])).hex()}, 'P', 'x'], key='hyp1f1_half', fam='G', tol=8, cost=2, maxprec=300)

# --- large arguments (asymptotic branches) and the documented evaluation options of the hypergeometric machinery --------
def _bigz(r, c):
    return real_spec(r, 6, 20, cfg=c)
def _hugez(r, c):
    return real_spec(r, 20, 120, cfg=c)
HOPT = {'maxprec': (0.35, 'i:60:600'), 'maxterms': (0.25, 'i:50:6000'), 'zeroprec': (0.15, 'i:10:200'), 'infprec': (0.15, 'i:10:200'),
        'accurate_small': (0.15, 'c:0,1')}
HOPT_S = dict(HOPT, force_series=(0.15, 'c:0,1'))
E('hyp0f1', ['P', _bigz], key='hyp0f1_big', fam='G', tol=10, cost=2, maxprec=300, kw=HOPT_S)
E('hyp1f1', ['x', 'P', _bigz], key='hyp1f1_big', fam='G', tol=10, cost=2, maxprec=300, kw=HOPT_S)
E('hyp1f1', ['x', 'P', _hugez], key='hyp1f1_huge', fam='G', tol=10, cost=2, maxprec=200, kw=HOPT)
E('hyp1f2', ['x', 'P', 'P', _bigz], key='hyp1f2_big', fam='G', tol=10, cost=2, maxprec=300, kw=HOPT)
E('hyp2f2', ['x', 'x', 'P', 'P', _bigz], key='hyp2f2_big', fam='G', tol=10, cost=2, maxprec=300, kw=HOPT)
E('hyp2f3', ['x', 'x', 'P', 'P', 'P', _bigz], key='hyp2f3_big', fam='G', tol=10, cost=2, maxprec=300, kw=HOPT)
E('hyp2f0', ['k', 'x', lambda r, c: real_spec(r, -12, -4, cfg=c)], key='hyp2f0_small', fam='G', tol=10, cost=2, maxprec=300, kw=HOPT)
E('hyper', [lambda r, c: L(real_spec(r, -3, 3, cfg=c)), lambda r, c: L(real_spec(r, -2, 3, sign=0, cfg=c)), _bigz],
  key='hyper_big', fam='G', tol=10, cost=2, maxprec=300, kw=HOPT)
E('hyp2f1', 'x x P W', key='hyp2f1_opts', fam='G', tol=10, cost=2, maxprec=300, kw=HOPT)
E('hyperu', ['P', 'P', _bigz], key='hyperu_big', fam='F', tol=10, cost=2, maxprec=300, kw=HOPT)
E('besselj', ['o', _bigz], key='besselj_bigz', fam='F', tol=10, cost=2, maxprec=300, kw=HOPT)
E('besseli', ['o', _bigz], key='besseli_bigz', fam='F', tol=10, cost=2, maxprec=300, kw=HOPT)
E('besselk', ['o', _bigz], key='besselk_bigz', fam='F', tol=10, cost=2, maxprec=300, kw=HOPT)
E('bessely', ['o', _bigz], key='bessely_bigz', fam='F', tol=10, cost=2, maxprec=300, kw=HOPT)
E('airyai', [_bigz], key='airyai_big', fam='F', tol=10, cost=2, maxprec=300)
E('airybi', [_bigz], key='airybi_big', fam='F', tol=10, cost=2, maxprec=300)
E('erf', [_bigz], key='erf_big', fam='E', tol=8, maxprec=400)
E('erfc', [_bigz], key='erfc_big', fam='E', tol=8, maxprec=400)
E('gammainc', ['P', _bigz], key='gammainc_bigz', fam='E', tol=10, cost=2, maxprec=300)
E('expint', ['o', _bigz], key='expint_bigz', fam='E', tol=10, cost=2, maxprec=300)
E('ei', [_bigz], key='ei_big', fam='E', tol=8, maxprec=400)
E('e1', [_bigz], key='e1_big', fam='E', tol=8, maxprec=400)
E('struveh', ['o', _bigz], key='struveh_big', fam='F', tol=10, cost=2, maxprec=200)
E('pcfd', ['h', _bigz], key='pcfd_big', fam='F', tol=10, cost=2, maxprec=200)
E('whitw', ['u', 'u', _bigz], key='whitw_big', fam='F', tol=10, cost=2, maxprec=200)

# --- Python builtins applied to numbers and matrices (printing converts at a raised or a decimal precision internally) ----
def _mpfonly(r, c):
    return mpf_spec(r, -6, 5, maxwidth=(c or {}).get('maxwidth'))
def _mpconly(r, c):
    return {'t': 'mpc', 'v': [mpf_spec(r, -5, 4)['v'], mpf_spec(r, -5, 4)['v']]}
for _b in ['str', 'repr', 'float', 'int', 'hash', 'bool']:
    E(_b, [_mpfonly], op='py:' + _b, key='py_' + _b, fam='L', exact=True, c10=False, ret='other', ctxs=MPIV if _b in ('str', 'repr') else ('mp',))
for _b in ['str', 'repr', 'complex', 'hash']:
    E(_b, [_mpconly], op='py:' + _b, key='py_' + _b + '_c', fam='L', exact=True, c10=False, ret='other')
E('str', 'mat3', op='py:str', key='py_str_matrix', fam='K', exact=True, c10=False, ret='other', ctxs=MPFP)
E('repr', 'mat3', op='py:repr', key='py_repr_matrix', fam='K', exact=True, c10=False, ret='other')
E('str', [{'t': 'const', 'v': 'pi'}], op='py:str', key='py_str_const', fam='L', exact=True, c10=False, ret='other')
E('float', [lambda r, c: {'t': 'const', 'v': r.choice(['pi', 'e', 'euler', 'catalan'])}], op='py:float', key='py_float_const', fam='L', exact=True, c10=False, ret='other')
E('nstr', 'mat3', key='nstr_matrix', fam='K', exact=True, c10=False, ret='other', kw={'n': (0.5, 'i:1:40')})
E('nstr', [_mpconly], key='nstr_c', fam='L', exact=True, c10=False, ret='other', kw={'n': (0.5, 'i:1:40')})
E('nstr', [_mpfonly], key='nstr_opts', fam='L', exact=True, c10=False, ret='other',
  kw={'n': (0.7, 'i:1:60'), 'min_fixed': (0.3, 'i:-10:0'), 'max_fixed': (0.3, 'i:0:10'), 'strip_zeros': (0.3, 'c:0,1'), 'show_zero_exponent': (0.2, 'c:0,1')})

# --- M: public entry points that a coverage audit of dir(mp) found without an entry ------------------------------
def _tiny(r, c):
    return real_spec(r, -8, -3, cfg=c)
def _spd3(r, c):
    rows = [[r.randint(-3, 3) for _ in range(3)] for _ in range(3)]
    a = [[sum(rows[i][k] * rows[j][k] for k in range(3)) + (30 if i == j else 0) for j in range(3)] for i in range(3)]
    return {'t': 'matrix', 'v': [[I(v) for v in rw] for rw in a]}
def _tri3(lower):
    def g(r, c):
        rows = []
        for i in range(3):
            row = []
            for j in range(3):
                keep = (j <= i) if lower else (j >= i)
                v = (r.randint(-16, 16) + (40 if i == j else 0)) if keep else 0
                row.append({'t': 'frac', 'v': [v, r.choice([1, 2, 4])]})
            rows.append(row)
        return {'t': 'matrix', 'v': rows}
    return g
E('appellf2', ['u', 'u', 'u', 'P', 'P', _tiny, _tiny], fam='G', tol=8, cost=3, maxprec=150)
E('appellf3', ['u', 'u', 'u', 'u', 'P', _tiny, _tiny], fam='G', tol=8, cost=3, maxprec=150)
E('appellf4', ['u', 'u', 'P', 'P', _tiny, _tiny], fam='G', tol=8, cost=3, maxprec=150)
E('bihyper', [lambda r, c: L(I(r.randint(-4, -1)), real_spec(r, -2, 2, cfg=c)), lambda r, c: L(real_spec(r, -2, 3, sign=0, cfg=c)), 'u'],
  fam='G', tol=8, cost=2, maxprec=300)
E('absmax', 'Z', fam='B', tol=2)
E('absmin', 'Z', fam='B', tol=2)
E('agm1', 'Zp', fam='H', tol=6)
E('phase', 'z', fam='B', tol=4)
E('conjugate', 'Z', fam='B', tol=4, c10=False)      # the same routine as conj: component-level, exempt from C10 like re/im/conj
E('hurwitz', 's P', key='hurwitz_alias', fam='D', tol=8, cost=2, maxprec=300)
E('fibonacci', 'Z', fam='C', tol=8)
for _n in ['isnpint', 'isnormal', 'isfinite', 'isinf', 'isnan']:
    E(_n, 'Z', fam='L', exact=True, c10=False, ret='other', ctxs=('mp',) if _n == 'isfinite' else MPFP)
E('difference', 'vec =1', fam='I', tol=4, c10=False)
E('eighe', 'sym', fam='K', tol=10, cost=2, c10=False, ret='seq', maxprec=300)
E('svd_r', 'mat', fam='K', tol=10, cost=2, c10=False, ret='seq', maxprec=300)
E('svd_c', 'mat', fam='K', tol=10, cost=2, c10=False, ret='seq', maxprec=300)
E('cholesky_solve', [_spd3, 'colvec3'], fam='K', tol=10, c10=False, ret='matrix', maxprec=400)
E('L_solve', [_tri3(True), 'colvec3'], fam='K', tol=10, c10=False, ret='matrix', maxprec=400)
E('U_solve', [_tri3(False), 'colvec3'], fam='K', tol=10, c10=False, ret='matrix', maxprec=400)
E('residual', 'mat3 colvec3 colvec3', fam='K', tol=10, c10=False, ret='matrix', maxprec=400)
E('lu_solve_mat', 'mat3 mat3', fam='K', tol=10, c10=False, ret='matrix', maxprec=400)
E('det', [_spd3], key='det_spd', fam='K', tol=10, c10=False, maxprec=400)
E('inverse', [_spd3], key='inverse_spd', fam='K', tol=10, c10=False, ret='matrix', maxprec=400)

# --- constants ----------------------------------------------------------------------------------------------
CONSTANTS =['pi', 'e', 'ln2', 'ln10', 'phi', 'degree', 'euler', 'catalan', 'apery', 'khinchin',
             'glaisher', 'twinprime', 'mertens']
for _c in CONSTANTS:
    slow = _c in ('khinchin', 'glaisher', 'twinprime', 'mertens')
    E('pos', [{'t': 'const', 'v': _c}], op='op:pos', key='const_' + _c, fam='L', tol=2, cost=3 if slow else 1,
      maxprec=300 if slow else 4000)
    E('mul', [{'t': 'const', 'v': _c}, 'x'], op='op:mul', key='constmul_' + _c, fam='L', tol=2, cost=3 if slow else 1,
      maxprec=300 if slow else 4000)

CAT = [e for e in CAT if e is not None]

# entries that also run in the interval context (probed: >= 3 of 4 generated calls return interval values)
IV_EXTRA = ['expm1', 'sec', 'csc', 'sinc', 'sign', 'fabs', 'arg', 're', 'im', 'atan2', 'power', 'log_b', 'log_1', 'ln_int', 'exp_hi',
            'sin_hi', 'cos_hi', 'powm1', 'cos_sin', 'polar', 'rect', 'gamma_big', 'gamma_int', 'factorial_int', 'polyexp', 'cyclotomic',
            'mangoldt', 'bernfrac', 'eulernum', 'stirling1', 'stirling2', 'factorial_big', 'list_primes', 'polylog', 'polylog_r',
            'siegeltheta', 'npdf', 'coulombc', 'hyp2f0', 'legendre', 'chebyt', 'chebyu', 'qp_n', 'qhyper']
for _k in IV_EXTRA:
    _e = BY_KEY.get(_k)
    if _e is not None and 'iv' not in _e.ctxs:
        _e.ctxs = tuple(_e.ctxs) + ('iv',)

def entries(ctx=None, fam=None, c10=None, maxcost=3, cb=None):
    out = []
    for e in CAT:
        if ctx is not None and ctx not in e.ctxs:
            continue
        if fam is not None and e.fam not in fam:
            continue
        if c10 is not None and e.c10 != c10:
            continue
        if e.cost > maxcost:
            continue
        if cb is not None and e.cb != cb:
            continue
        out.append(e)
    return out
