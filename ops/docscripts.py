"""Doc-script harvester (DESIGN.md 2.3 item 2).

Reads /repo's own docstrings and function_docs.py *as text* (ast + doctest
parser; nothing is imported or computed, so a pristine process stays
pristine) and turns every docstring with examples into a script: a list of
top-level statements.  Precision assignments are recognised by AST only.
"""
import ast, os, doctest, hashlib

PLOT_NAMES = ('plot', 'cplot', 'splot')
SKIP_SUBSTR = ('pylab', 'matplotlib', 'timing(', 'doctest.testmod', 'import sympy', 'sympy.', 'numpy',
               'input(', 'open(', 'os.', 'sys.', '__import__', 'exit(', 'quit(')

class Stmt(object):
    __slots__ = ('src', 'kind', 'target', 'attr', 'value_src', 'aug', 'is_setup', 'nested_assign', 'idx')
    def __init__(self, src):
        self.src = src
        self.kind = 'stmt'         # 'stmt' | 'assign' | 'default'
        self.target = None         # 'mp' | 'iv' | 'fp'
        self.attr = None           # 'prec' | 'dps'
        self.aug = None
        self.value_src = None
        self.is_setup = False
        self.nested_assign = False

def _prec_target(t):
    """(ctxname, attr) if AST target is <name>.prec / <name>.dps"""
    if isinstance(t, ast.Attribute) and t.attr in ('prec', 'dps') and isinstance(t.value, ast.Name):
        return t.value.id, t.attr
    return None

def classify(node, src):
    s = Stmt(src)
    if isinstance(node, (ast.Assign, ast.AugAssign)):
        tg = node.targets if isinstance(node, ast.Assign) else [node.target]
        hits = [_prec_target(t) for t in tg]
        hits = [h for h in hits if h]
        if hits:
            s.kind = 'assign'
            s.target, s.attr = hits[0]
            s.aug = type(node.op).__name__ if isinstance(node, ast.AugAssign) else None
            try:
                s.value_src = ast.unparse(node.value)
            except Exception:
                s.value_src = None
    if s.kind == 'stmt':
        # default(): documented way to reset precision -> model update
        if (isinstance(node, ast.Expr) and isinstance(node.value, ast.Call)
                and isinstance(node.value.func, ast.Attribute) and node.value.func.attr == 'default'
                and isinstance(node.value.func.value, ast.Name)):
            s.kind = 'default'
            s.target = node.value.func.value.id
        # precision assignment nested anywhere below the top level
        for n in ast.walk(node):
            if n is node:
                continue
            if isinstance(n, (ast.Assign, ast.AugAssign)):
                tg = n.targets if isinstance(n, ast.Assign) else [n.target]
                if any(_prec_target(t) for t in tg):
                    s.nested_assign = True
            if isinstance(n, ast.Call) and isinstance(n.func, ast.Attribute) and n.func.attr == 'default':
                s.nested_assign = True
    s.is_setup = isinstance(node, (ast.Assign, ast.AugAssign, ast.FunctionDef, ast.ClassDef, ast.Import,
                                   ast.ImportFrom)) and s.kind == 'stmt'
    return s

def _docstrings_of_file(path, rel):
    with open(path, 'rb') as f:
        text = f.read().decode('utf-8', 'replace')
    try:
        tree = ast.parse(text, path)
    except SyntaxError:
        return
    def walk(node, qual):
        if isinstance(node, (ast.Module, ast.ClassDef, ast.FunctionDef)):
            d = ast.get_docstring(node, clean=False)
            if d:
                yield (qual or '<module>', d)
            for c in node.body:
                if isinstance(c, (ast.ClassDef, ast.FunctionDef)):
                    for r in walk(c, (qual + '.' if qual else '') + c.name):
                        yield r
                elif (isinstance(node, ast.Module) and isinstance(c, ast.Assign) and len(c.targets) == 1
                      and isinstance(c.targets[0], ast.Name) and isinstance(c.value, ast.Constant)
                      and isinstance(c.value.value, str)):
                    yield (c.targets[0].id, c.value.value)      # function_docs.py style
    for r in walk(tree, ''):
        yield r

def harvest(pkg_dir):
    """-> list of scripts: {'id', 'stmts': [Stmt]}; deterministic order."""
    parser = doctest.DocTestParser()
    scripts = []
    for d, dirs, files in os.walk(pkg_dir):
        dirs.sort()
        if os.path.basename(d) == 'tests':
            dirs[:] = []
            continue
        for fn in sorted(files):
            if not fn.endswith('.py'):
                continue
            path = os.path.join(d, fn)
            rel = os.path.relpath(path, pkg_dir)
            for qual, doc in _docstrings_of_file(path, rel):
                if '>>>' not in doc:
                    continue
                try:
                    examples = parser.get_examples(doc)
                except ValueError:
                    continue
                stmts = []
                bad = False
                for ex in examples:
                    src = ex.source
                    if any(t in src for t in SKIP_SUBSTR):
                        continue
                    try:
                        tree = ast.parse(src)
                    except SyntaxError:
                        continue
                    for node in tree.body:
                        try:
                            s1 = ast.unparse(node)
                        except Exception:
                            continue
                        # plotting calls are dropped
                        if any(isinstance(n, ast.Call) and (
                                (isinstance(n.func, ast.Name) and n.func.id in PLOT_NAMES) or
                                (isinstance(n.func, ast.Attribute) and n.func.attr in PLOT_NAMES))
                               for n in ast.walk(node)):
                            continue
                        stmts.append(classify(node, s1))
                if stmts:
                    for i, s in enumerate(stmts):
                        s.idx = i
                    scripts.append({'id': rel + ':' + qual, 'stmts': stmts})
    scripts.sort(key=lambda s: s['id'])
    return scripts

def corpus_digest(scripts):
    h = hashlib.sha256()
    for s in scripts:
        h.update(s['id'].encode())
        for st in s['stmts']:
            h.update(st.src.encode())
    return h.hexdigest()
