"""C34 - odefun interpolants: accurate and independent of evaluation order.

Search space: problems with closed forms x evaluation orders (ascending,
descending, shuffled, repeats, segment boundaries) x precision changes between
evaluations x a second interpolant interleaved x aborted segment extensions
(F1: the right-hand side raises on its k-th call inside an evaluation; F3:
interrupt at an arbitrary line, uniform / late / store-adjacent).
Oracle: (i) closed form within the property's own bound, (ii) the value of a
pristine solver evaluated in order, (iii) no exception other than the injected
one and the documented ValueError for x < x0.
"""
import json
from fractions import Fraction
from simkit import codec, isolate, compare
from simkit.world import World
from simkit import minimise as _min
from machines import common
from ops import catalogue, odeproblems
from ops.catalogue import I

_REF = {}

class Machine(object):
    PROP = 'C34'
    DEFAULT_SEED = 3401
    RUNS = {'quick': 1200, 'thorough': 20000}
    WALL = {'quick': 150, 'thorough': 1500}
    MIN_WALL = 120
    BUDGET = {'quick': 500000, 'thorough': 2000000}
    RUN_TIMEOUT = 300

    def setup(self, tier, workers, replay=False):
        self.tier = tier

    def generate(self, rng, tier):
        return _Gen(self, rng, tier).program()

    def run(self, prog, mode=None):
        budget = prog.get('config', {}).get('budget', self.BUDGET['quick'])
        seed_base = str(prog.get('seed', 0)).encode()
        def child(prog, survey, survey_in):
            w = World(budget=budget, survey=survey, survey_in=survey_in)
            w.seed_base = seed_base
            ex = common.Exec(w, 'C34')
            ex.records = []
            ex.rare = {}
            ex.sites = set()
            ex.check_fn = _collect
            ex.run(prog['steps'])
            st = {'world': w.stats, 'rare': ex.rare, 'sites': ex.sites,
                  'passes': {'fault_free' if survey_in is None else 'faulted': 1}}
            return {'violations': ex.viol, 'stats': st, 'digest': w.digest(), 'program': prog, 'survey': survey,
                    'records': ex.records}
        def judge(res):
            _judge(res, mode)
        return common.run_two_pass(prog, child, self.RUN_TIMEOUT, mode=mode, judge=judge)

    def simplify(self, prog):
        # only precision assignments are simplified; evaluation points and problems keep their meaning
        steps = prog['steps']
        for i, s in enumerate(steps):
            if s.get('kind') == 'setprec' and not s.get('c34') and s['value'].get('v') != 53:
                c = json.loads(json.dumps(prog)); c['steps'][i]['value'] = I(53)
                yield c

    def sample_view(self, prog):
        from machines.c11 import _brief
        return {'seed': prog.get('seed'), 'config': prog.get('config'), 'steps': [_brief(s) for s in prog.get('steps', [])][:40]}

    def evidence(self, agg, tier):
        w = agg.get('world', {})
        j = agg.get('judge', {})
        cov = {
            'distinct_nontrivial': len(agg.get('cases', set())),
            'rule': ('a case is one simulated history of one or two odefun interpolants (<= 25 evaluations, seeded order, precision '
                     'changes between evaluations, <= 2 injected faults); non-trivial+distinct = distinct (problem, creation-precision '
                     'bucket, order pattern, relation of the point to the segments known so far: inside / extends / boundary / repeat, '
                     'precision changed since creation?, after an aborted evaluation?) tuples whose value was judged'),
            'evaluations_judged': j.get('judged', 0),
            'bit_identical_to_in_order_pristine_solver': j.get('identical', 0),
            'bit_identical_rate': round(j.get('identical', 0) / max(1, j.get('judged', 0)), 5),
            'closed_form_checks': j.get('closed', 0),
            'max_observed_error_log2_relative_to_bound': max(agg.get('margins') or [None], key=lambda v: -10**9 if v is None else v),
            'max_observed_error_log2_relative_to_a_componentwise_bound_informational': max(agg.get('margins_componentwise') or [None], key=lambda v: -10**9 if v is None else v),
            'evaluations_after_an_aborted_one': j.get('after_abort', 0),
            'evaluations_that_extended_the_solution': j.get('extends', 0),
            'evaluations_at_a_segment_boundary': j.get('boundary', 0),
            'reference_solver_runs': j.get('refs', 0),
            'steps_executed': w.get('steps', 0),
            'step_clock_py_start_events': w.get('starts', 0),
            'line_events': w.get('lines', 0),
            'faults_fired_by_kind': w.get('fired', {}),
            'faults_planned_but_not_fired': w.get('notfired', 0),
            'distinct_fault_sites': len(agg.get('sites', set())),
            'fault_sites_sample': sorted(agg.get('sites', set()))[:40],
            'rare_conditions': agg.get('rare', {}),
            'real_vs_stub': {'real': ['mpmath.odefun and everything below it, from the working tree'],
                             'stub': ['right-hand sides (ops/callbacks.py)', 'closed forms (ops/odeproblems.py, mpmath elementary functions at >= 2x precision in the pristine state)']},
        }
        return {'coverage': cov, 'assumptions': [
            'accuracy is judged only for the closed-form problem table (exp, growth, rational, polynomial, high-degree polynomial right-hand side, oscillator, triangular system, huge constant component next to an oscillator), component by component',
            'closed forms trust mpmath exp/cos/sin at doubled precision']}


def _collect(ex, step, rec, where):
    if rec is not None and rec.get('fired'):
        f = rec['fired']
        ex.sites.add('%s:%s:%s' % (f.get('file', f.get('cb')), f.get('func', ''), f.get('line', '')))
        if f.get('after_store'):
            ex.rare['interrupt_after_store'] = ex.rare.get('interrupt_after_store', 0) + 1
            if 'odes.py' in str(f.get('store', '')):
                ex.rare['interrupt_between_segment_appends'] = ex.rare.get('interrupt_between_segment_appends', 0) + 1
        if rec.get('status') == 'faulted':
            for name in list(ex.w.actors):
                ex.resync(name)
            ex.after_abort = True
    for name in list(ex.w.actors):
        ctx = ex.w.actors[name]
        if (ctx.prec, ctx.dps) != ex.model.get(name):
            ex.resync(name)
    meta = step.get('c34')
    if not meta or rec is None or 'x' not in meta:
        return
    r = {'meta': meta, 'status': rec.get('status'), 'fired': bool(rec.get('fired')), 'step': step.get('id'),
         'after_abort': bool(getattr(ex, 'after_abort', False)), 'pcur': ex.model.get('mp')[0]}
    if rec.get('status') == 'ok':
        r['value'] = codec.encode(rec.get('_res'))
    else:
        r['exc'] = rec.get('exc')
    ex.records.append(r)

def _reference(create, xs, pref, mode):
    """in-order pristine solver + closed forms; memoised"""
    key = json.dumps([create.get('args'), create.get('kwargs'), create['c34']['prec'], xs, pref], sort_keys=True)
    if key in _REF:
        return _REF[key]
    cs = json.loads(json.dumps(create))
    cs.pop('fault', None)
    meta = cs['c34']
    if len(cs.get('args', [])) > 2 and cs['args'][2].get('t') == 'obj':
        cs['args'][2] = json.loads(json.dumps(meta['y0']))      # the caller's container as it was when the problem was posed
    def fn():
        w = World(budget=None)
        ex = common.Exec(w, 'REF')
        ex._force_prec('mp', meta['prec'])
        rec, f = w.exec_leaf(cs)
        if rec['status'] != 'ok':
            return None
        mp = w.actors['mp']
        out = {}
        ex._force_prec('mp', pref)
        bounds = []
        for xspec in xs:            # ascending
            x = w.mat('mp', json.loads(json.dumps(xspec)))
            try:
                v = f(x)
                out[json.dumps(xspec)] = {'ref': codec.encode(v)}
            except Exception as e:
                out[json.dumps(xspec)] = {'ref': codec.enc_exc(e)}
        ex._force_prec('mp', 2 * pref + 64)
        x0 = w.mat('mp', json.loads(json.dumps(meta['x0'])))
        y0 = w.mat('mp', json.loads(json.dumps(meta['y0'])))
        y0l = [mp.mpf(v) for v in y0] if isinstance(y0, list) else [mp.mpf(y0)]
        for xspec in xs:
            x = w.mat('mp', json.loads(json.dumps(xspec)))
            try:
                e = odeproblems.exact(mp, meta['problem'], meta['p'], mp.mpf(x0), y0l, mp.mpf(x))
                out[json.dumps(xspec)]['exact'] = codec.encode(e)
            except Exception as e2:
                out[json.dumps(xspec)]['exact'] = codec.enc_exc(e2)
        return out
    st, val = isolate.call(fn, timeout=300, mode=mode)
    _REF[key] = val if st == 'ok' else None
    if len(_REF) > 2000:
        _REF.clear()
    return _REF.get(key)

def _vec(enc):
    out, sh = [], []
    compare.flatten(enc, out, sh)
    return out

def _spec_frac(spec):
    from simkit.model import spec_value
    return Fraction(spec_value(spec))

def _judge(res, mode):
    viol = res.setdefault('violations', [])
    st = res.setdefault('stats', {})
    j = st.setdefault('judge', {})
    cases = st.setdefault('cases', set())
    def bump(k, n=1):
        j[k] = j.get(k, 0) + n
    recs = res.get('records', [])
    prog = res.get('program') or {}
    creates = {}
    for s in prog.get('steps', []):
        if s.get('c34', {}).get('create'):
            creates[s['id']] = s
    by = {}
    for r in recs:
        by.setdefault(r['meta']['interp'], []).append(r)
    for iid, lst in by.items():
        create = creates.get(iid)
        if create is None:
            continue
        meta = create['c34']
        xs = []
        for r in lst:
            if r['meta']['x'] not in xs:
                xs.append(r['meta']['x'])
        x0f = _spec_frac(meta['x0'])
        xs = [x for x in xs if _spec_frac(x) >= x0f]
        xs.sort(key=_spec_frac)
        pref = max([meta['prec'] + 40] + [r['pcur'] for r in lst])
        ref = _reference(create, xs, pref, mode) if xs else {}
        bump('refs')
        if ref is None:
            continue
        P0 = meta['prec']
        tolreq = Fraction(0)
        if meta.get('tol_log2') is not None:
            tolreq = Fraction(2) ** meta['tol_log2']
        seen = set()
        maxx = None
        for r in lst:
            if r['fired']:
                maxx = None if maxx is None else maxx     # an aborted extension may or may not have been recorded
                continue
            xk = json.dumps(r['meta']['x'])
            xf = _spec_frac(r['meta']['x'])
            def V(check, detail):
                d = {'problem': meta['problem'], 'p': meta['p'], 'creation_prec': P0, 'current_prec': r['pcur'],
                     'degree': meta.get('degree'), 'degree_below_default': bool(meta.get('degree_below_default')), 'tol_log2': meta.get('tol_log2'),
                     'x_minus_x0': float(xf - x0f), 'after_abort': r['after_abort']}
                d.update(detail)
                viol.append({'property': 'C34', 'check': check, 'entry': 'odefun', 'step': r['step'], 'detail': d})
            if xf < x0f:
                if r['status'] == 'ok' or (r.get('exc') and r['exc'][1] != 'ValueError'):
                    V('x-below-x0-not-rejected', {'got': r.get('exc') or 'returned'})
                continue
            if r['status'] != 'ok':
                if r.get('exc') and r['exc'][1] in ('SimBudget',):
                    continue
                V('evaluation-raised', {'exc': r.get('exc')})
                continue
            rr = ref.get(xk)
            if not rr or rr['ref'][0] == 'exc' or rr.get('exact', ['exc'])[0] == 'exc':
                continue
            bump('judged')
            if r['after_abort']:
                bump('after_abort')
            rel = 'repeat' if xk in seen else ('extends' if (maxx is None or xf > maxx) else 'inside')
            if rel == 'extends':
                bump('extends')
            if r['meta'].get('boundary'):
                bump('boundary'); rel = 'boundary'
            seen.add(xk)
            maxx = xf if maxx is None else max(maxx, xf)
            cases.add((meta['problem'], P0.bit_length(), meta.get('order'), rel, r['pcur'] != P0, r['after_abort']))
            h = _vec(r['value']); f = _vec(rr['ref']); e = _vec(rr['exact'])
            if len(h) != len(f) or any(isinstance(v, str) for v in h + f + e):
                V('shape', {'got': codec.short(r['value'], 200)})
                continue
            peff = min(r['pcur'], P0)
            # (ii) history value vs in-order pristine solver (rounded to the current precision by the same rule)
            scale = max([abs(v) for v in f] + [Fraction(1, 2 ** 64)])
            dh = max(abs(a - b) for a, b in zip(h, f))
            if dh == 0 or dh <= scale * Fraction(2) ** (-r['pcur'] + 1) and r['pcur'] < pref:
                bump('identical')         # equal up to the final rounding to the current precision
            if dh > scale * Fraction(2) ** (8 - peff):
                V('order-dependence', {'rel_diff_log2': compare._log2(dh / scale), 'bound_log2': 8 - peff,
                                       'got': codec.short(r['value'], 160), 'in_order': codec.short(rr['ref'], 160)})
                continue
            # (i) closed form within the property's own bound
            bump('closed')
            y0n = max([abs(v) for v in _vec(codec_spec(meta['y0']))] + [Fraction(1)])
            L = odeproblems.growth_L(meta['problem'], meta['p'])
            growth = Fraction(3) ** int(L * float(xf - x0f) + 1) if L else Fraction(1)     # >= exp(L t)
            tol_eff = max(tolreq, Fraction(2) ** (10 - peff))
            # component by component: |h_i - e_i| <= tol x growth x max(|e_i|, 1).  (Until round 9 the bound was
            # norm-wise - tol x growth x the largest component - under which a small component next to a huge one
            # may lose all its digits; the quick and thorough batches had shown the same margin for both readings.)
            bound = tol_eff * growth * max([abs(v) for v in e] + [y0n])
            def off(vec):
                return max((abs(a - b) / (tol_eff * growth * max(abs(b), Fraction(1)))) for a, b in zip(vec, e))
            de = max(abs(a - b) for a, b in zip(h, e))
            if off(h) > 1:
                # is it the solver as such (a pristine in-order solver is just as far off: an input-space
                # accuracy defect of odefun) or an effect of this history?
                V('closed-form-accuracy', {'err_log2': compare._log2(de), 'bound_log2': compare._log2(bound),
                                           'componentwise_excess_log2': compare._log2(off(h)),
                                           'in_order_solver_also_off': bool(off(f) > 1),
                                           'got': codec.short(r['value'], 160), 'exact': codec.short(rr['exact'], 160)})
            elif de:
                # how close the observed errors come to the bound (sets, so that batches merge by union)
                st.setdefault('margins', set()).add(int(compare._log2(de / bound)))
                # the same, component by component (|h_i - e_i| against tol x growth x max(|e_i|, 1)): informational
                cw = max((abs(a - b) / (tol_eff * growth * max(abs(b), Fraction(1)))) for a, b in zip(h, e))
                if cw:
                    st.setdefault('margins_componentwise', set()).add(int(compare._log2(cw)))
    res.pop('records', None)

def codec_spec(spec):
    """encoded form of a literal argument spec (int / mpf / list) for flatten()"""
    t = spec['t']
    if t == 'int':
        return ['int', str(spec['v'])]
    if t == 'mpf':
        v = spec['v']
        man = int(v[1], 16)
        return ['mpf', v[0], v[1], v[2], man.bit_length()]
    if t == 'frac':
        return ['frac', str(spec['v'][0]), str(spec['v'][1])]
    if t in ('list', 'tuple'):
        return [t, [codec_spec(s) for s in spec['v']]]
    raise ValueError(spec)


def _dy(num, den_log2):
    """exact dyadic literal num / 2^den_log2 as an mpf spec"""
    if num == 0:
        return I(0)
    s = 1 if num < 0 else 0
    return {'t': 'mpf', 'v': [s, '%x' % abs(num), -den_log2]}

class _Gen(object):
    def __init__(self, m, rng, tier):
        self.rng = r = rng
        self.tier = tier
        self.nid = 0
        self.fault_rate = r.choice([0.0, 0.0, 0.2, 0.4])
        self.kinds = [k for k in ('F1', 'F3') if r.random() < 0.75] or ['F3']
        self.placement = r.choice(['uniform', 'late', 'store', 'store'])
        self.order = r.choice(['ascending', 'descending', 'shuffled', 'repeats', 'mixed'])
        self.two = r.random() < 0.3
        self.change_prec = r.random() < 0.6
        self.cfg = {'order': self.order, 'fault_rate': self.fault_rate, 'fault_kinds': self.kinds, 'placement': self.placement,
                    'budget': m.BUDGET[tier], 'two_interpolants': self.two}
        self.nfault = 0

    def new_id(self):
        self.nid += 1
        return self.nid

    def make_problem(self):
        r = self.rng
        name = r.choice(odeproblems.PROBLEMS)
        a = r.randint(1, 3); b = r.randint(1, 3)
        P0 = r.choice([r.randint(30, 64), r.randint(30, 64), 53, r.randint(30, 64), r.randint(65, 120), r.randint(65, 150), r.randint(150, 300)])
        if self.tier == 'quick' and P0 > 120 and r.random() < 0.8:
            P0 = r.randint(30, 100)
        span = 8.0 if P0 <= 64 else (3.0 if P0 <= 120 else 1.0)
        if name == 'ode_lin':
            span = min(span, 4.0)
        if name == 'ode_xpow':
            span = min(span, 2.0)       # x^31 over eight units with a degree-15 polynomial per segment: minutes per run
        x0 = _dy(r.randint(-24, 24), 3)
        if odeproblems.dim(name) == 3:
            # one huge component (k * 2^60) next to two of size 1
            y0 = {'t': 'list', 'v': [_dy(r.randint(1, 24), -60), _dy(r.randint(1, 24), 3), _dy(r.randint(-16, 16), 3)]}
            span = min(span, 1.5)
            P0 = min(P0, 90)          # (a fast oscillator at high precision means hundreds of high-degree segments)
        elif odeproblems.dim(name) == 2:
            y0 = {'t': 'list', 'v': [_dy(r.randint(1, 24), 3), _dy(r.randint(-16, 16), 3)]}
        else:
            y0 = _dy(r.randint(1, 40), 3)          # positive (keeps the pole of y' = -y^2 on the left of x0)
        kw = {}
        tol_log2 = None
        if r.random() < 0.3:
            tol_log2 = -r.randint(10, P0)
            kw['tol'] = _dy(1, -tol_log2)
        degree = None
        from simkit.model import prec_to_dps
        dflt = 3 + int(3 * prec_to_dps(P0) / 2.)
        if r.random() < 0.25:
            # a user degree below the default loses accuracy (known finding C34-K01); most runs stay at or above it
            degree = r.randint(max(10, dflt - 12), dflt - 1) if r.random() < 0.25 else r.randint(dflt, dflt + 25)
            if name == 'ode_xpow' and degree < dflt:
                degree = dflt + (degree % 7)      # (x^31 with an 11-term Taylor polynomial means thousands of tiny segments: minutes per run)
            kw['degree'] = I(degree)
        st = {'kind': 'call', 'actor': 'mp', 'op': 'f:odefun', 'args': [catalogue.CB(name, a, b), x0, y0], 'id': self.new_id(),
              'c34': {'create': True, 'problem': name, 'p': [a, b], 'x0': x0, 'y0': y0, 'prec': P0, 'tol_log2': tol_log2, 'order': self.order,
                      'degree': degree, 'degree_below_default': bool(degree is not None and degree < dflt)}}
        if kw:
            st['kwargs'] = kw
        return st, span

    def points(self, create, span, n):
        r = self.rng
        x0n = int(create['c34']['x0']['v'][1], 16) * (-1 if create['c34']['x0']['v'][0] else 1) if create['c34']['x0']['t'] == 'mpf' else 0
        # x0 = x0n / 8 ; points x0 + k/16, k in [0, span*16]
        ks = [r.randint(0, int(span * 16)) for _ in range(n)]
        if self.order == 'ascending':
            ks.sort()
        elif self.order == 'descending':
            ks.sort(reverse=True)
        elif self.order == 'repeats':
            base = ks[:max(2, n // 3)]
            ks = [r.choice(base) for _ in range(n)]
        elif self.order == 'mixed':
            ks = sorted(ks[:n // 2]) + ks[n // 2:]
        out = []
        for k in ks:
            out.append(_dy(2 * x0n + k, 4))
        if r.random() < 0.3:
            out.insert(r.randint(0, len(out)), _dy(2 * x0n, 4))                   # x0 itself
        if r.random() < 0.15:
            out.insert(r.randint(0, len(out)), _dy(2 * x0n - r.randint(1, 8), 4))   # x < x0: documented ValueError
        return out

    def program(self):
        r = self.rng
        steps = []
        interps = []
        for _ in range(2 if self.two else 1):
            c, span = self.make_problem()
            steps.append({'kind': 'setprec', 'actor': 'mp', 'value': I(c['c34']['prec']), 'id': self.new_id(), 'c34': {'creation': True}})
            reuse_y0 = c['args'][2].get('t') == 'list' and r.random() < 0.3
            if reuse_y0:
                # the caller keeps its initial-value container and edits it after posing the problem (a parameter
                # sweep re-using one list or matrix): the problem posed is the one at the time of the odefun call
                y0spec = c['args'][2]
                if r.random() < 0.5:
                    mk = {'kind': 'call', 'actor': 'mp', 'op': 'py:list', 'args': [json.loads(json.dumps(y0spec))], 'id': self.new_id()}
                else:
                    mk = {'kind': 'call', 'actor': 'mp', 'op': 'f:matrix', 'args': [json.loads(json.dumps(y0spec))], 'id': self.new_id()}
                steps.append(mk)
                c['args'][2] = {'t': 'obj', 'i': mk['id']}
            steps.append(c)
            if reuse_y0:
                steps.append({'kind': 'call', 'actor': 'mp', 'op': 'setitem:', 'id': self.new_id(),
                              'args': [{'t': 'obj', 'i': mk['id']}, I(r.randint(0, 1)), _dy(r.randint(-40, 40) or 7, 3)]})
            interps.append((c, self.points(c, span, r.randint(3, 14))))
        # interleave the evaluation lists
        queue = []
        idx = [0] * len(interps)
        while any(idx[i] < len(interps[i][1]) for i in range(len(interps))):
            i = r.choice([k for k in range(len(interps)) if idx[k] < len(interps[k][1])])
            queue.append((interps[i][0], interps[i][1][idx[i]]))
            idx[i] += 1
        for c, x in queue:
            if self.change_prec and r.random() < 0.35:
                p = r.choice([c['c34']['prec'], max(10, c['c34']['prec'] // 2), c['c34']['prec'] + 30, r.randint(15, 200)])
                steps.append({'kind': 'setprec', 'actor': 'mp', 'value': I(p), 'id': self.new_id()})
            st = {'kind': 'call', 'actor': 'mp', 'op': 'call:', 'args': [{'t': 'obj', 'i': c['id']}, x], 'id': self.new_id(),
                  'c34': {'interp': c['id'], 'x': x}}
            u1, u2, u3 = r.random(), r.random(), r.random()
            if u1 < self.fault_rate and self.nfault < 2:
                k = self.kinds[int(u2 * len(self.kinds))]
                if k == 'F1':
                    st['fault'] = {'kind': 'F1', 'u': u3, 'slot': 0, 'act': 'raise', 'shim_of': c['id']}
                else:
                    st['fault'] = {'kind': 'F3', 'u': u3, 'placement': self.placement}
                self.nfault += 1
            steps.append(st)
            if 'fault' in st:
                steps.append({'kind': 'reassert', 'id': self.new_id()})
                # continue on both sides of the aborted segment
                for dx in (0, -3, 5):
                    x2 = json.loads(json.dumps(x))
                    if x2.get('t') == 'mpf':
                        num = int(x2['v'][1], 16) * (-1 if x2['v'][0] else 1) + dx
                        x2 = _dy(num, -x2['v'][2]) if x2['v'][2] < 0 else x2
                    steps.append({'kind': 'call', 'actor': 'mp', 'op': 'call:', 'args': [{'t': 'obj', 'i': c['id']}, x2], 'id': self.new_id(),
                                  'c34': {'interp': c['id'], 'x': x2}})
        return {'config': self.cfg, 'steps': steps}
