"""C17 - mathematical constants at every precision, rounding mode and history.

Search space: orders of constant requests (13 constants x entry points
`+mp.c`, `mpf(c, prec=, rounding=)`, `libmp.mpf_c(p, r)`, `iv.c`, clone
contexts) interleaved with noise operations that request constants
internally, with line-granular interrupts (F3) inside requests and noise.
Oracle: own big-integer values rounded by own code (fast six: exact
equality); within one ulp and on the correct side for the others; equality
with the value the same request gives in the pristine state.
Plus one exhaustive fault-free sweep over p x rounding modes for the fast six.
"""
import json
from simkit import codec, env, isolate
from simkit.world import World
from simkit import minimise as _min
from machines import common
from ops import catalogue, constoracle as co

CONSTS = ['pi', 'e', 'ln2', 'ln10', 'phi', 'degree', 'euler', 'catalan', 'apery', 'khinchin', 'glaisher',
          'twinprime', 'mertens']
IV_CONSTS = ['pi', 'e', 'ln2', 'ln10', 'phi', 'euler', 'catalan', 'glaisher', 'khinchin', 'twinprime']
CAP = {'quick': {'twinprime': 200, 'khinchin': 400, 'mertens': 400, 'glaisher': 500, 'euler': 2000, 'catalan': 2000, 'apery': 2000},
       'thorough': {'twinprime': 400, 'khinchin': 900, 'mertens': 900, 'glaisher': 1200, 'euler': 4096, 'catalan': 4096, 'apery': 4096}}
FASTCAP = 4096
NOISE = ['exp', 'ln', 'sin', 'cos', 'atan', 'gamma', 'loggamma', 'zeta_int', 'sqrt', 'expj', 'cosh', 'asin', 'log_b',
         'erf', 'besselj', 'ellipk', 'psi', 'bernoulli', 'degrees', 'radians', 'agm', 'lambertw', 'li', 'ei']

_REF = {}          # per-worker memo of pristine reference values (deterministic)

class Machine(object):
    PROP = 'C17'
    DEFAULT_SEED = 1701
    RUNS = {'quick': 2500, 'thorough': 40000}
    WALL = {'quick': 140, 'thorough': 1500}
    MIN_WALL = 60
    BUDGET = {'quick': 400000, 'thorough': 2000000}
    RUN_TIMEOUT = 300
    SWEEP_PMAX = {'quick': 1024, 'thorough': 4096}

    def setup(self, tier, workers, replay=False):
        self.tier = tier
        for n in co.OWN:
            co.enclosure(n)         # computed once, inherited by the workers
        self.sweep_stats = None
        if not replay:
            self.sweep_stats = self._sweep(tier, workers)

    # ------------------------------------------------- exhaustive pristine sweep
    def _sweep(self, tier, workers):
        """Fault-free, for the fast six: every p = 1..Pmax x 5 rounding modes, in an
        ascending and a descending request history; exact comparison with the oracle."""
        from concurrent.futures import ProcessPoolExecutor
        import multiprocessing
        pmax = self.SWEEP_PMAX[tier]
        tasks = [(n, pmax, order) for n in co.FAST for order in ('asc', 'desc')]
        # the interval constants of the same names (and euler): at every precision the interval must contain the
        # constant and be at most one ulp wide
        tasks += [(n, pmax, 'iv') for n in co.OWN if n in IV_CONSTS]
        bad = []
        n_eval = 0
        straddle = 0
        with ProcessPoolExecutor(min(workers, len(tasks)), mp_context=multiprocessing.get_context('fork')) as ex:
            for res in ex.map(_sweep_one, tasks):
                n_eval += res['evals']; straddle += res['straddle']; bad.extend(res['bad'])
        self.sweep_bad = bad
        return {'constants': list(co.FAST), 'pmax': pmax, 'rounding_modes': 'nfcdu', 'histories': ['ascending', 'descending'],
                'evaluations': n_eval, 'mismatches': len(bad), 'oracle_straddles_skipped': straddle, 'exhaustive': True}

    def generate(self, rng, tier):
        return _Gen(self, rng, tier).program()

    def run(self, prog, mode=None):
        budget = prog.get('config', {}).get('budget', self.BUDGET['quick'])
        def child(prog, survey, survey_in):
            w = World(budget=budget, survey=survey, survey_in=survey_in)
            w.seed_base = str(prog.get('seed', 0)).encode()
            ex = common.Exec(w, 'C17')
            ex.records = []
            ex.rare = {}
            ex.sites = set()
            ex.check_fn = _collect
            ex.run(prog['steps'])
            st = {'world': w.stats, 'rare': ex.rare, 'sites': ex.sites, 'requests': len(ex.records),
                  'passes': {'fault_free' if survey_in is None else 'faulted': 1}}
            return {'violations': ex.viol, 'stats': st, 'digest': w.digest(), 'program': prog, 'survey': survey,
                    'records': ex.records}
        def judge(res):
            _judge(res, mode)
        res = common.run_two_pass(prog, child, self.RUN_TIMEOUT, mode=mode, judge=judge)
        # the sweep's mismatches are reported through run 0 of a batch (they have no program)
        return res

    def simplify(self, prog):
        # request steps carry their own meaning (c17 meta): only structure is simplified
        for cand in _min.generic_simplify(prog):
            ok = True
            for a, b in zip(prog['steps'], cand['steps']):
                if a.get('c17') and (a.get('args') != b.get('args') or a.get('kwargs') != b.get('kwargs')):
                    ok = False
            if ok and len(cand['steps']) == len(prog['steps']):
                yield cand

    def sample_view(self, prog):
        from machines.c11 import _brief
        return {'seed': prog.get('seed'), 'config': prog.get('config'), 'steps': [_brief(s) for s in prog.get('steps', [])][:40]}

    def extra_violations(self):
        """violations that have no seeded program: the exhaustive sweep"""
        out = []
        bad = getattr(self, 'sweep_bad', [])
        for b in [x for x in bad if x[2] == 'iv'][:5]:
            name, p, r, got, exp, order = b
            prog = {'property': 'C17', 'seed': 0, 'config': {'budget': self.BUDGET['quick']},
                    'steps': [_req_step(1, name, 'iv', p, 'n', 'iv')]}
            out.append((prog, {'property': 'C17', 'check': 'interval-too-wide' if 'wider than 1 ulp: True' in got and 'False' not in got else 'interval-excludes-constant',
                               'entry': name + '/iv', 'step': 1, 'detail': {'const': name, 'p': p, 'sweep': got}}))
        for b in [x for x in bad if x[2] != 'iv'][:5]:
            name, p, r, got, exp, order = b
            prog = {'property': 'C17', 'seed': 0, 'config': {'budget': self.BUDGET['quick']},
                    'steps': [_req_step(1, name, 'lib', p, r, 'mp')]}
            out.append((prog, {'property': 'C17', 'check': 'not-correctly-rounded', 'entry': name + '/lib', 'step': 1,
                               'detail': {'const': name, 'p': p, 'rounding': r, 'got': got, 'expected': exp, 'history': order}}))
        return out

    def evidence(self, agg, tier):
        w = agg.get('world', {})
        j = agg.get('judge', {})
        cov = {
            'distinct_nontrivial': len(agg.get('cases', set())),
            'rule': ('a case is one simulated request history (<= 60 requests for constants through 4 entry points and 5 rounding modes, '
                     'noise operations, precision patterns ascending/descending/ping-pong/repeats/neighbours, <= 3 interrupts); '
                     'non-trivial+distinct = distinct (constant, entry point, rounding mode, precision bucket, relation of the request to '
                     'the memo state: first / grows memo / served by shifting / after an aborted request) tuples whose returned value was judged'),
            'requests_judged': j.get('judged', 0),
            'requests_judged_against_own_big_integer_oracle': j.get('own', 0),
            'requests_judged_against_pristine_value': j.get('pristine', 0),
            'interval_requests_judged': j.get('iv', 0),
            'oracle_straddles_skipped': j.get('straddle', 0),
            'reference_disagreements_HARNESS': j.get('ref_disagree', 0),
            'exhaustive_sweep': self.sweep_stats,
            'steps_executed': w.get('steps', 0),
            'step_clock_py_start_events': w.get('starts', 0),
            'line_events': w.get('lines', 0),
            'faults_fired_by_kind': w.get('fired', {}),
            'faults_planned_but_not_fired': w.get('notfired', 0),
            'faults_absorbed': w.get('absorbed', 0),
            'distinct_fault_sites': len(agg.get('sites', set())),
            'fault_sites_sample': sorted(agg.get('sites', set()))[:40],
            'rare_conditions': agg.get('rare', {}),
            'real_vs_stub': {'real': ['all of mpmath from the working tree', 'CPython 3.12'],
                             'stub': ['big-integer constants oracle (ops/constoracle.py)', 'pristine-state reference values']},
        }
        return {'coverage': cov, 'assumptions': [
            'own oracle enclosures at %d bits (pi Machin, e factorial series, ln2/ln10 atanh series, phi isqrt, apery binomial series, euler Brent-McMillan)' % co.P,
            'khinchin/glaisher/twinprime/mertens/catalan references are mpmath itself at two higher precisions that must agree',
            'correct rounding of the fast six is decided exhaustively for p <= Pmax in two histories; beyond that sampled']}


def _sweep_one(task):
    name, pmax, order = task
    def fn_iv():
        import mpmath
        iv = mpmath.iv
        bad = []; evals = 0; straddle = 0
        for p in range(1, pmax + 1):
            iv.prec = p
            a, b = iv.mpf(getattr(iv, name))._mpi_
            evals += 1
            if a[0] or b[0]:
                bad.append((name, p, 'iv', 'negative endpoint', '', 'iv')); continue
            ok_a = co.contains(name, int(a[1]), a[2], 'le'); ok_b = co.contains(name, int(b[1]), b[2], 'ge')
            if ok_a is None or ok_b is None:
                straddle += 1
            top = max(int(b[1]).bit_length() + b[2], int(a[1]).bit_length() + a[2])
            e = min(a[2], b[2], top - p)
            wide = (int(b[1]) << (b[2] - e)) - (int(a[1]) << (a[2] - e)) > (1 << (top - p - e))
            if ok_a is False or ok_b is False or wide:
                bad.append((name, p, 'iv', 'a<=c: %s, b>=c: %s, wider than 1 ulp: %s' % (ok_a, ok_b, wide), '', 'iv'))
        return {'evals': evals, 'straddle': straddle, 'bad': bad[:10]}
    def fn():
        import mpmath
        f = getattr(mpmath.libmp, 'mpf_' + name)
        ps = range(1, pmax + 1) if order == 'asc' else range(pmax, 0, -1)
        bad = []; evals = 0; straddle = 0
        for p in ps:
            for r in 'nfcdu':
                e = co.expected(name, p, r)
                if e is None:
                    straddle += 1
                    continue
                got = f(p, r)
                evals += 1
                if got[0] != 0 or (int(got[1]), got[2]) != e:
                    bad.append((name, p, r, [int(got[1]).bit_length(), got[2]], [e[0].bit_length(), e[1]], order))
        return {'evals': evals, 'straddle': straddle, 'bad': bad[:10]}
    st, val = isolate.call(fn_iv if order == 'iv' else fn, timeout=600)
    if st != 'ok':
        raise RuntimeError('sweep failed: %s %s' % (st, val))
    return val

def _req_step(sid, name, entry, p, r, actor):
    meta = {'const': name, 'entry': entry, 'p': p, 'r': r}
    if entry == 'pos':
        return {'kind': 'probe', 'actor': actor, 'prec': p, 'op': 'op:pos', 'args': [{'t': 'const', 'v': name}], 'id': sid, 'c17': meta}
    if entry == 'mpf_kw':
        return {'kind': 'call', 'actor': actor, 'op': 'new:mpf', 'args': [{'t': 'const', 'v': name}],
                'kwargs': {'prec': {'t': 'int', 'v': p}, 'rounding': {'t': 'str', 'v': r}}, 'id': sid, 'c17': meta}
    if entry == 'call':       # the constant object called with keywords: mp.pi(prec=p, rounding=r)
        return {'kind': 'call', 'actor': actor, 'op': 'call:', 'args': [{'t': 'const', 'v': name}],
                'kwargs': {'prec': {'t': 'int', 'v': p}, 'rounding': {'t': 'str', 'v': r}}, 'id': sid, 'c17': meta}
    if entry == 'mul1':       # arithmetic with the constant as an operand at working precision p: 1 * mp.pi
        return {'kind': 'probe', 'actor': actor, 'prec': p, 'op': 'op:mul', 'args': [{'t': 'int', 'v': 1}, {'t': 'const', 'v': name}],
                'id': sid, 'c17': meta}
    if entry == 'lib':
        return {'kind': 'call', 'actor': 'mp', 'op': 'lib:mpf_' + name, 'args': [{'t': 'int', 'v': p}, {'t': 'str', 'v': r}], 'id': sid, 'c17': meta}
    if entry == 'iv':
        return {'kind': 'probe', 'actor': 'iv', 'prec': p, 'op': 'new:mpf', 'args': [{'t': 'const', 'v': name}], 'id': sid, 'c17': meta}
    raise ValueError(entry)

def _collect(ex, step, rec, where):
    meta = step.get('c17')
    if rec is not None and rec.get('fired'):
        f = rec['fired']
        ex.sites.add('%s:%s:%s' % (f.get('file'), f.get('func'), f.get('line')))
        if f.get('after_store'):
            ex.rare['interrupt_after_store'] = ex.rare.get('interrupt_after_store', 0) + 1
            if 'libelefun.py' in str(f.get('file')) and f.get('func') == 'g':
                ex.rare['interrupt_inside_constant_memo_update'] = ex.rare.get('interrupt_inside_constant_memo_update', 0) + 1
        # an aborted call is followed by re-asserting every actor's precision (DESIGN 2.4)
        for name in list(ex.w.actors):
            ex.resync(name)
        ex.after_abort = True
    if not meta or rec is None:
        return
    r = {'meta': meta, 'status': rec.get('status'), 'fired': bool(rec.get('fired')), 'step': step.get('id'),
         'after_abort': bool(getattr(ex, 'after_abort', False))}
    if rec.get('status') == 'ok':
        r['value'] = codec.encode(rec.get('_res'))
    else:
        r['exc'] = rec.get('exc')
    ex.records.append(r)

def _tuple_of(enc):
    """(man, exp) of a request result, or ('iv', (man,exp), (man,exp))"""
    k = enc[0]
    if k == 'mpf':
        if enc[1] != 0:
            return None
        return (int(enc[2], 16), enc[3])
    if k == 'tuple':           # raw libmp tuple
        v = enc[1]
        if v[0][1] != '0':
            return None
        return (int(v[1][1]), int(v[2][1]))
    if k == 'ivmpf':
        return ('iv', (int(enc[1][2], 16), enc[1][3]), (int(enc[2][2], 16), enc[2][3]))
    return None

def _pristine_request(meta, mode):
    """value of the same request in the pristine state (memoised per worker)"""
    key = ('req', meta['const'], meta['entry'], meta['p'], meta['r'])
    if key in _REF:
        return _REF[key]
    step = _req_step(1, meta['const'], meta['entry'], meta['p'], meta['r'], 'iv' if meta['entry'] == 'iv' else 'mp')
    def fn():
        w = World(budget=None)
        ex = common.Exec(w, 'C17')
        ex.records = []; ex.rare = {}; ex.sites = set()
        ex.check_fn = _collect
        ex.step(step)
        return ex.records[0] if ex.records else None
    st, val = isolate.call(fn, timeout=300, mode=mode)
    out = None
    if st == 'ok' and val and val.get('status') == 'ok':
        out = _tuple_of(val['value'])
    _REF[key] = out
    return out

def _highprec(name, q, mode):
    """pristine mpmath value of the constant at q bits (round to nearest), as (man, exp)"""
    key = ('hp', name, q)
    if key in _REF:
        return _REF[key]
    def fn():
        import mpmath
        v = getattr(mpmath.libmp, 'mpf_' + name)(q, 'n')
        return (int(v[1]), v[2])
    st, val = isolate.call(fn, timeout=600, mode=mode)
    _REF[key] = val if st == 'ok' else None
    return _REF[key]

def _cmp(a, b):
    """sign of a - b for (man, exp) positives"""
    e = min(a[1], b[1])
    x = a[0] << (a[1] - e); y = b[0] << (b[1] - e)
    return (x > y) - (x < y)

def _within(v, R, p, ulps=1):
    """|v - R| < ulps * ulp_p(R), R = (man, exp) high precision"""
    top = R[0].bit_length() + R[1]          # R < 2^top
    ulp_exp = top - p
    e = min(v[1], R[1], ulp_exp)
    x = v[0] << (v[1] - e); y = R[0] << (R[1] - e); u = ulps << (ulp_exp - e)
    return abs(x - y) < u

def _judge(res, mode):
    """Runs in the worker after the run: compares every judged request with the oracles."""
    viol = res.setdefault('violations', [])
    st = res.setdefault('stats', {})
    j = st.setdefault('judge', {})
    cases = st.setdefault('cases', set())
    def bump(k):
        j[k] = j.get(k, 0) + 1
    seen_memo = {}
    for r in res.get('records', []):
        meta = r['meta']
        name, entry, p, rnd = meta['const'], meta['entry'], meta['p'], meta['r']
        if r['fired']:
            continue                      # the aborted / absorbed request itself is never judged
        def V(check, detail):
            d = {'const': name, 'entry': entry, 'p': p, 'rounding': rnd, 'after_abort': r['after_abort']}
            d.update(detail)
            viol.append({'property': 'C17', 'check': check, 'entry': name + '/' + entry, 'step': r['step'], 'detail': d})
        if r['status'] != 'ok':
            V('request-raised', {'exc': r.get('exc')})
            continue
        t = _tuple_of(r['value'])
        if t is None:
            V('bad-value', {'value': codec.short(r['value'], 160)})
            continue
        bump('judged')
        prev = seen_memo.get(name)
        rel = 'first' if prev is None else ('grow' if p > prev else 'shift')
        seen_memo[name] = max(prev or 0, int(p * 1.05 + 10) + 20)
        cases.add((name, entry, rnd, p.bit_length(), 'abort' if r['after_abort'] else rel))
        if rel == 'shift':
            st.setdefault('rare', {})['memo_served_lower_precision_by_shifting'] = st.setdefault('rare', {}).get('memo_served_lower_precision_by_shifting', 0) + 1
        elif rel == 'grow':
            st.setdefault('rare', {})['memo_grown_mid_run'] = st.setdefault('rare', {}).get('memo_grown_mid_run', 0) + 1
        if entry == 'iv':
            bump('iv')
            _, a, b = t
            if name in co.OWN:
                ok_a = co.contains(name, a[0], a[1], 'le'); ok_b = co.contains(name, b[0], b[1], 'ge')
                if ok_a is False or ok_b is False:
                    V('interval-excludes-constant', {'a_le_c': ok_a, 'b_ge_c': ok_b})
                bump('own')
            else:
                R = _ref_R(name, p, mode, j)
                if R is not None and (_cmp(a, R) > 0 or _cmp(b, R) < 0):
                    V('interval-excludes-constant', {})
            # width <= 1 ulp
            top = max(b[0].bit_length() + b[1], a[0].bit_length() + a[1])
            e = min(a[1], b[1], top - p)
            if (b[0] << (b[1] - e)) - (a[0] << (a[1] - e)) > (1 << (top - p - e)):
                V('interval-too-wide', {'a_bits': a[0].bit_length(), 'b_bits': b[0].bit_length()})
            pv = _pristine_request(meta, mode)
            if pv is not None:
                bump('pristine')
                if pv != t:
                    V('history-dependence', {'got': _fmt(t), 'pristine': _fmt(pv)})
            continue
        if t[0].bit_length() > p:
            V('too-many-bits', {'bits': t[0].bit_length()})
        if name in co.FAST:
            e = co.expected(name, p, rnd)
            if e is None:
                bump('straddle')
            else:
                bump('own')
                if e != t:
                    V('not-correctly-rounded', {'got': _fmt(t), 'expected': _fmt(e)})
                continue
        # within one ulp, directed rounding on the correct side
        if name in co.OWN:
            bump('own')
            if not co.within_ulps(name, t[0], t[1], p, 1):
                V('more-than-one-ulp-off', {'got': _fmt(t)})
            if rnd in ('f', 'd') and co.contains(name, t[0], t[1], 'le') is False:
                V('floor-above-constant', {'got': _fmt(t)})
            if rnd in ('c', 'u') and co.contains(name, t[0], t[1], 'ge') is False:
                V('ceiling-below-constant', {'got': _fmt(t)})
        else:
            R = _ref_R(name, p, mode, j)
            if R is not None:
                if not _within(t, R, p, 1):
                    V('more-than-one-ulp-off', {'got': _fmt(t)})
                if rnd in ('f', 'd') and _cmp(t, R) > 0:
                    V('floor-above-constant', {'got': _fmt(t)})
                if rnd in ('c', 'u') and _cmp(t, R) < 0:
                    V('ceiling-below-constant', {'got': _fmt(t)})
        pv = _pristine_request(meta, mode)
        if pv is not None:
            bump('pristine')
            if pv != t:
                V('history-dependence', {'got': _fmt(t), 'pristine': _fmt(pv)})
    res.pop('records', None)

def _ref_R(name, p, mode, j):
    a = _highprec(name, p + 64, mode)
    b = _highprec(name, 2 * p + 128, mode)
    if a is None or b is None:
        return None
    if not _within(a, b, p + 32, 1):
        j['ref_disagree'] = j.get('ref_disagree', 0) + 1
        return None
    return b

def _fmt(t):
    if t and t[0] == 'iv':
        return ['iv', _fmt(t[1]), _fmt(t[2])]
    return ['%x' % t[0] if t[0].bit_length() <= 128 else '%x..(%d bits)' % (t[0] >> (t[0].bit_length() - 64), t[0].bit_length()), t[1]]


class _Gen(object):
    def __init__(self, m, rng, tier):
        self.rng = r = rng
        self.tier = tier
        self.nid = 0
        self.cap = CAP[tier]
        self.pattern = r.choice(['ascending', 'descending', 'pingpong', 'repeats', 'neighbours', 'random', 'random'])
        k = r.choice([1, 2, 3, 6, 13])
        self.consts = r.sample(CONSTS, k)
        if r.random() < 0.5:
            self.consts = [c for c in self.consts if c not in ('twinprime', 'khinchin', 'mertens', 'glaisher')] or ['pi']
        self.entries = [e for e in ('pos', 'mpf_kw', 'lib', 'iv', 'call', 'mul1') if r.random() < 0.7] or ['lib']
        self.modes = r.choice(['n', 'nfc', 'nfcdu', 'fc'])
        self.fault_rate = r.choice([0.0, 0.0, 0.1, 0.25, 0.5])
        self.placement = r.choice(['uniform', 'late', 'store', 'store'])
        self.noise_rate = r.choice([0.0, 0.15, 0.4])
        self.clone = r.random() < 0.25
        self.nreq = r.randint(5, 50)
        self.base = r.choice([r.randint(1, 64), r.randint(1, 400), r.randint(300, 2000), r.randint(1000, 4000)])
        self.cfg = {'pattern': self.pattern, 'consts': self.consts, 'entries': self.entries, 'modes': self.modes,
                    'fault_rate': self.fault_rate, 'placement': self.placement, 'budget': m.BUDGET[tier]}

    def new_id(self):
        self.nid += 1
        return self.nid

    def prec_seq(self, n, cap):
        r = self.rng
        b = min(self.base, cap)
        pat = self.pattern
        out = []
        if pat == 'ascending':
            p = max(1, b // 4)
            for _ in range(n):
                out.append(min(cap, p)); p = p + r.randint(0, max(2, p // 6))
        elif pat == 'descending':
            p = b
            for _ in range(n):
                out.append(max(1, p)); p = p - r.randint(0, max(2, p // 6))
        elif pat == 'pingpong':
            # across the 1.05p+10 growth threshold of the memo
            lo = b; hi = int(b * 1.05 + 10)
            for i in range(n):
                out.append(min(cap, r.choice([lo, hi, hi + 1, hi - 1, hi + 21, lo + 20, lo - 1]) if i else lo))
        elif pat == 'repeats':
            ps = [min(cap, max(1, b + r.randint(-5, 5))) for _ in range(3)]
            out = [r.choice(ps) for _ in range(n)]
        elif pat == 'neighbours':
            out = [min(cap, max(1, b + r.randint(-2, 2))) for _ in range(n)]
        else:
            out = [min(cap, max(1, r.choice([r.randint(1, 64), r.randint(1, cap), b, 53]))) for _ in range(n)]
        return [max(1, min(cap, p)) for p in out]

    def program(self):
        r = self.rng
        steps = []
        if self.clone:
            steps.append({'kind': 'clone', 'actor': 'c1', 'parent': 'mp', 'id': self.new_id()})
        seqs = {}
        for c in self.consts:
            seqs[c] = self.prec_seq(self.nreq, self.cap.get(c, FASTCAP))
        nfault = 0
        for i in range(self.nreq):
            c = r.choice(self.consts)
            p = seqs[c][i]
            entry = r.choice(self.entries)
            if entry == 'iv' and c not in IV_CONSTS:
                entry = 'lib'
            rnd = r.choice(self.modes) if entry in ('mpf_kw', 'lib', 'call') else 'n'
            actor = 'c1' if (self.clone and entry in ('pos', 'mpf_kw', 'call', 'mul1') and r.random() < 0.4) else 'mp'
            st = _req_step(self.new_id(), c, entry, p, rnd, actor)
            u1 = r.random(); u2 = r.random()
            if u1 < self.fault_rate and nfault < 3:
                st['fault'] = {'kind': 'F3', 'u': u2, 'placement': self.placement}
                nfault += 1
            steps.append(st)
            if 'fault' in st:
                # follow the aborted request by requests at lower, equal and higher precision
                for q in (max(1, p // 2), p, min(self.cap.get(c, FASTCAP), p + p // 3 + 7)):
                    e2 = r.choice(self.entries)
                    if e2 == 'iv' and c not in IV_CONSTS:
                        e2 = 'lib'
                    steps.append(_req_step(self.new_id(), c, e2, q, r.choice(self.modes) if e2 in ('mpf_kw', 'lib', 'call') else 'n', 'mp'))
            if r.random() < self.noise_rate:
                e = catalogue.BY_KEY[r.choice(NOISE)]
                q = min(e.maxprec, r.choice([p, p + 13, max(1, p - 7), r.randint(20, 600)]))
                steps.append({'kind': 'setprec', 'actor': 'mp', 'value': {'t': 'int', 'v': q}, 'id': self.new_id()})
                ns = e.gen(r, {'maxwidth': 200}, actor='mp')
                ns['id'] = self.new_id()
                u3 = r.random(); u4 = r.random()
                if u3 < self.fault_rate and nfault < 3:
                    ns['fault'] = {'kind': 'F3', 'u': u4, 'placement': self.placement}
                    nfault += 1
                steps.append(ns)
        return {'config': self.cfg, 'steps': steps}
