"""Pristine-state reference evaluations (DESIGN.md 2.5/2.6).

A probe (actor kind, precision, op, concrete args) is evaluated in the
pristine state: `isolate.call` restores the snapshot (in-process mode) or forks
a child of the pristine process (fork mode).  Results are memoised per worker
process; they are deterministic functions of the key, so the memo cannot
change any verdict.
"""
import json
from simkit import codec, isolate
from simkit.world import World
from machines import common

_MEMO = {}
REF_BUDGET = 3000000        # step-clock budget of one reference evaluation (cold caches cost more than warm ones)
STATS = {'evals': 0, 'hits': 0, 'timeouts': 0}

def _key(step, actor_kind, prec, setup):
    return json.dumps([actor_kind, prec, step.get('op'), step.get('args'), step.get('kwargs'), step.get('src'), setup], sort_keys=True)

def pristine_eval(step, prec, mode=None, setup=None, timeout=120, seed_base=b'0'):
    """Encoded value (or ['exc', ...]) of `step` run alone in the pristine
    state at precision `prec`; None if it could not be evaluated in time.
    `setup`: steps to execute first (object creation for object probes)."""
    actor = step.get('actor', 'mp')
    kind = 'clone' if actor.startswith('c') else actor
    key = _key(step, kind, prec, setup)
    if key in _MEMO:
        STATS['hits'] += 1
        return _MEMO[key]
    st2 = json.loads(json.dumps(step))
    st2.pop('fault', None)
    from simkit.world import _walk_specs
    for sp in _walk_specs(st2):
        if sp.get('t') == 'cb':
            sp.pop('shim', None)
    st2['kind'] = 'call' if st2.get('kind') != 'stmt' else 'stmt'
    setup2 = json.loads(json.dumps(setup)) if setup else []
    def fn():
        w = World(budget=REF_BUDGET)
        w.seed_base = seed_base
        ex = common.Exec(w, 'REF')
        if kind == 'clone':
            ex.step({'kind': 'clone', 'actor': actor, 'parent': 'mp'})
        if actor != 'fp' and prec is not None:
            ex._force_prec(actor, prec)
        for s in setup2:
            s.pop('fault', None)
            ex.step(s)
            if actor != 'fp' and prec is not None:
                ex._force_prec(actor, prec)
        rec, res = w.exec_leaf(st2)
        if rec['status'] == 'ok':
            return codec.encode(res)
        return rec.get('exc') or ['exc', 'Unknown', rec['status']]
    st, val = isolate.call(fn, timeout=timeout, mode=mode)
    STATS['evals'] += 1
    if st != 'ok' or (val and val[0] == 'exc' and val[1] == 'SimBudget'):
        STATS['timeouts'] += 1
        val = None                 # a reference that ran out of budget is no reference
    _MEMO[key] = val
    if len(_MEMO) > 20000:
        _MEMO.clear()
    return val
