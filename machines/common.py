"""Shared pieces of the property machines: the model-tracking step executor
(used by C10/C11/C33/C38), precision pickers, doc-script slicing and the
doc-script pre-screen."""
import gc, sys, time, hashlib
from simkit import codec, proc, isolate
from simkit.model import PrecModel, Invalid, spec_value
from simkit.monitor import UserFault
from simkit.world import World

MGR_NAMES = ('workprec', 'workdps', 'extraprec', 'extradps')

def pick_prec(rng, hi=1200):
    r = rng.random()
    if hi <= 66:
        return 53 if (r < 0.3 and hi >= 53) else rng.randint(1, max(1, hi))
    if r < 0.10:
        return 53
    if r < 0.35:
        return rng.randint(1, 64)
    if r < 0.45:
        k = rng.randint(2, 10)
        return max(1, min(hi, (1 << k) + rng.choice([-1, 0, 1])))
    if r < 0.88:
        return rng.randint(65, min(400, hi))
    return rng.randint(min(400, hi), hi)

def pick_dps(rng, hi=360):
    r = rng.random()
    if r < 0.2:
        return 15
    if r < 0.5:
        return rng.randint(1, 30)
    return rng.randint(30, hi)

WEIRD_ASSIGN = [
    {'t': 'int', 'v': 0}, {'t': 'int', 'v': -5}, {'t': 'int', 'v': 1}, {'t': 'int', 'v': 2},
    {'t': 'float', 'v': (20.7).hex()}, {'t': 'float', 'v': (0.3).hex()}, {'t': 'float', 'v': (1e2).hex()},
    {'t': 'float', 'v': float('inf').hex()}, {'t': 'float', 'v': float('nan').hex()},
    {'t': 'str', 'v': '40'}, {'t': 'str', 'v': 'abc'}, {'t': 'str', 'v': '12.5'}, {'t': 'none'},
    {'t': 'bool', 'v': True}, {'t': 'attr', 'v': 'inf'},
    {'t': 'mpf', 'v': [0, '65', -1]},      # mpf(50.5)
    {'t': 'mpf', 'v': [1, '3', 0]},        # mpf(-3)
    {'t': 'int', 'v': 10 ** 400},          # cannot be converted to a digit count: must raise and change nothing
]

class Exec(object):
    """Executes program steps in a World while tracking the precision model.

    check(step, rec, where) is called after every step (and after entering /
    leaving a manager block) and returns nothing; machines append violations
    to self.viol.  The executor itself reports assignment-formula violations.
    """
    def __init__(self, world, prop):
        self.w = world
        self.prop = prop
        self.model = PrecModel()
        self.viol = []
        self.events = 0
        self.check_fn = None
        self.pre_fn = None
        self.settings = {}          # actor -> {'pretty': bool, 'trap_complex': bool} as assigned by the program
        self.max_viol = 4
        self.stop = False

    # -- violations ----------------------------------------------------------
    def violation(self, check, entry, step, detail):
        v = {'property': self.prop, 'check': check, 'entry': entry, 'step': step.get('id') if step else None,
             'detail': detail}
        self.viol.append(v)
        self.w.log.append({'violation': check, 'entry': entry, 'step': v['step']})
        if len(self.viol) >= self.max_viol:
            self.stop = True
        return v

    def check(self, step, rec, where):
        if self.check_fn:
            self.check_fn(self, step, rec, where)

    # -- precision checks (used by C11 / C38 and as a sanity net elsewhere) ----
    def read_prec(self):
        out = {}
        for name, ctx in self.w.actors.items():
            out[name] = (ctx.prec, ctx.dps)
        return out

    def resync(self, name):
        """Put an actor back to its model precision after a reported violation."""
        ctx = self.w.actors[name]
        p, d = self.model.get(name)
        if name == 'fp':
            return
        ctx.prec = p
        if (ctx.prec, ctx.dps) != (p, d):
            ctx.dps = d
        if (ctx.prec, ctx.dps) != (p, d):
            self.stop = True

    def effective_prec(self, name):
        ctx = self.w.actors[name]
        if name == 'fp':
            return 53
        v = ctx.mpf(1) / 3
        if hasattr(v, '_mpi_'):
            a, b = v._mpi_
            # one of the two directed roundings of 1/3 ends in a zero bit
            return max(a[1].bit_length(), b[1].bit_length())
        return v._mpf_[1].bit_length()

    # -- steps -------------------------------------------------------------------
    def run(self, steps):
        for st in steps:
            if self.stop:
                break
            self.step(st)

    def step(self, st):
        k = st['kind']
        w = self.w
        if k in ('setprec', 'setdps'):
            return self._assign(st)
        if k == 'default':
            actor = st['actor']
            try:
                w.actors[actor].default()
                self.model.default(actor)
                rec = {'id': st.get('id'), 'kind': 'default', 'actor': actor, 'status': 'ok'}
            except Exception as e:
                rec = {'id': st.get('id'), 'kind': 'default', 'actor': actor, 'status': 'raised', 'exc': codec.enc_exc(e)}
            w.log.append(rec)
            self.check(st, rec, 'after')
            return rec
        if k == 'clone':
            parent = st.get('parent', 'mp')
            c = w.actors[parent].clone()
            c._sim_name = st['actor']
            w.actors[st['actor']] = c
            self.model.clone(st['actor'], parent)
            rec = {'id': st.get('id'), 'kind': 'clone', 'actor': st['actor'], 'status': 'ok'}
            w.log.append(rec)
            self.check(st, rec, 'after')
            return rec
        if k in ('call', 'stmt', 'probe'):
            if st.get('actor', 'mp') not in w.actors:
                return None
            if k == 'probe' and 'prec' in st:
                self._force_prec(st['actor'], st['prec'])
            if self.pre_fn:
                self.pre_fn(self, st)
            rec, res = w.exec_leaf(st)
            rec['_res'] = res
            self.check(st, rec, 'after')
            rec.pop('_res', None)
            return rec
        if k == 'with':
            return self._with(st)
        if k == 'drop':
            w.vals.pop(st['obj'], None)
            gc.collect()
            rec = {'id': st.get('id'), 'kind': 'drop', 'status': 'ok'}
            w.log.append(rec)
            self.check(st, rec, 'after')
            return rec
        if k == 'setting':
            actor = st['actor']
            if actor not in w.actors:
                return None
            rec = {'id': st.get('id'), 'kind': 'setting', 'actor': actor, 'name': st['name'], 'value': st['value']}
            try:
                setattr(w.actors[actor], st['name'], st['value'])
                rec['status'] = 'ok'
                self.settings.setdefault(actor, {})[st['name']] = st['value']
            except Exception as e:
                rec['status'] = 'raised'; rec['exc'] = codec.enc_exc(e)
            w.log.append(rec)
            self.check(st, rec, 'after')
            return rec
        if k == 'nestedstep':
            # a step another actor's callback ran on this actor (kept in this actor's solo projection)
            actor = st['actor']
            if actor not in w.actors or actor == 'fp':
                return None
            inner = dict(st['step']); inner['actor'] = actor; inner['kind'] = 'call'; inner['id'] = st.get('id')
            saved = self.model.get(actor)
            rec = None
            try:
                with w.actors[actor].workprec(st['workprec']):
                    self.model.set_prec(actor, st['workprec'])
                    rec, res = w.exec_leaf(inner)
            finally:
                self.model.restore(actor, saved)
            if rec is not None:
                rec['_res'] = res
                self.check(st, rec, 'after')
                rec.pop('_res', None)
            return rec
        if k == 'reassert':
            for name in list(w.actors):
                self.resync(name)
            return None
        raise ValueError('unknown step kind %r' % k)

    def _force_prec(self, actor, p):
        if actor == 'fp':
            return
        self.w.actors[actor].prec = p
        self.model.set_prec(actor, p)

    def _assign(self, st):
        w = self.w
        actor = st['actor']
        if actor not in w.actors:
            return None
        ctx = w.actors[actor]
        attr = 'prec' if st['kind'] == 'setprec' else 'dps'
        spec = st['value']
        val = w.mat(actor if actor != 'iv' else 'mp', spec)
        try:
            mv = spec_value(spec)
            valid = True
        except Invalid:
            mv = None
            valid = False
        before = self.model.get(actor)
        expect_raise = False
        if valid:
            try:
                if attr == 'prec':
                    self.model.set_prec(actor, mv)
                else:
                    self.model.set_dps(actor, mv)
            except Invalid:
                expect_raise = True
        else:
            expect_raise = actor != 'fp'
        rec = {'id': st.get('id'), 'kind': st['kind'], 'actor': actor, 'value': spec}
        try:
            setattr(ctx, attr, val)
            rec['status'] = 'ok'
        except Exception as e:
            rec['status'] = 'raised'
            rec['exc'] = codec.enc_exc(e)
        w.log.append(rec)
        if (rec['status'] == 'raised') != expect_raise:
            self.violation('assign-outcome', 'set:' + attr, st,
                           {'actor': actor, 'value': spec, 'raised': rec.get('exc'), 'model_expected_raise': expect_raise})
            if rec['status'] == 'raised':
                self.model.restore(actor, before)
        self.check(st, rec, 'assign')
        return rec

    def _with(self, st):
        """with ctx.<mgr>(arg): body  -- body is a step list; may end by raising."""
        w = self.w
        actor = st['actor']
        if actor not in w.actors or actor == 'fp':
            return None
        ctx = w.actors[actor]
        name = st['mgr']
        arg = st['arg']
        saved = self.model.get(actor)
        rec = {'id': st.get('id'), 'kind': 'with', 'actor': actor, 'mgr': name, 'arg': arg}
        mref = st.get('mgr_obj')
        try:
            if mref is not None and mref in w.vals:
                mgr = w.vals[mref]
                # a re-entered manager recomputes from the precision current at entry
            else:
                mgr = getattr(ctx, name)(arg)
                if mref is not None:
                    w.vals[mref] = mgr
        except Exception as e:
            rec['status'] = 'raised'; rec['exc'] = codec.enc_exc(e)
            w.log.append(rec)
            return rec
        real_name = st.get('mgr_kind', name)
        p, d = saved
        entered = False
        try:
            with mgr:
                entered = True
                if real_name == 'workprec':
                    self.model.set_prec(actor, arg)
                elif real_name == 'workdps':
                    self.model.set_dps(actor, arg)
                elif real_name == 'extraprec':
                    self.model.set_prec(actor, p + arg)
                else:
                    self.model.set_dps(actor, d + arg)
                w.log.append({'id': st.get('id'), 'kind': 'with-enter', 'actor': actor})
                self.check(st, rec, 'enter')
                for s in st.get('body', []):
                    if self.stop:
                        break
                    self.step(s)
                if st.get('raise'):
                    raise UserFault('with body raises')
        except UserFault:
            rec['raised_body'] = True
        self.model.restore(actor, saved)
        rec['status'] = 'ok'
        w.log.append({'id': st.get('id'), 'kind': 'with-exit', 'actor': actor})
        self.check(st, rec, 'exit')
        return rec


def cache_signature(w):
    """Best-effort introspection of the caches of DESIGN.md 1.2 (sizes and
    precision buckets).  Used for coverage counting only, never by an oracle."""
    lm = w.mpmath.libmp
    le, gz, li = lm.libelefun, lm.gammazeta, lm.libintmath
    sig = []
    try:
        for name in ('pi_fixed', 'ln2_fixed', 'e_fixed', 'euler_fixed', 'catalan_fixed', 'ln10_fixed'):
            f = getattr(le, name, None) or getattr(gz, name, None)
            mp_ = -1
            if f is not None and f.__closure__:
                for c in f.__closure__:
                    try:
                        v = c.cell_contents
                    except ValueError:
                        continue
                    if hasattr(v, 'memo_prec'):
                        mp_ = v.memo_prec
            sig.append(mp_.bit_length() if mp_ > 0 else 0)
        sig.append(len(getattr(gz, 'bernoulli_cache', {})))
        sig.append(len(getattr(gz, 'gamma_taylor_cache', {})))
        sig.append(len(getattr(gz, 'gamma_stirling_cache', {})))
        sig.append(len(getattr(gz, 'zeta_int_cache', {})))
        sig.append(len(getattr(gz, 'borwein_cache', {})))
        sig.append(len(getattr(gz, 'sieve_cache', [])).bit_length())
        sig.append(len(getattr(le, 'log_int_cache', {})).bit_length())
        sig.append(len(getattr(le, 'log_taylor_cache', {})).bit_length())
        sig.append(len(getattr(le, 'atan_taylor_cache', {})).bit_length())
        sig.append(len(getattr(le, 'cos_sin_cache', {})).bit_length())
        mp = w.actors['mp']
        sig.append(len(getattr(mp, 'hyp_summators', {})))
        sig.append(len(getattr(mp, '_misc_const_cache', {})))
        for rule in ('_gauss_legendre', '_tanh_sinh'):
            r = getattr(mp, rule, None)
            sig.append(len(getattr(r, 'standard_cache', {})))
            sig.append(len(getattr(r, 'transformed_cache', {})))
    except Exception:
        sig.append('?')
    return tuple(sig)


# ---------------------------------------------------------------------------
# two-pass execution (fork is the expensive primitive in this sandbox)

def _walk_steps(steps):
    for s in steps:
        yield s
        if s.get('body'):
            for x in _walk_steps(s['body']):
                yield x

def has_unresolved_faults(prog):
    for s in _walk_steps(prog.get('steps', [])):
        f = s.get('fault')
        if f and not f.get('resolved'):
            return True
    return False

def strip_all_faults(prog):
    import json
    p = json.loads(json.dumps(prog))
    for s in _walk_steps(p.get('steps', [])):
        s.pop('fault', None)
        for a in _walk_args(s):
            if isinstance(a, dict) and a.get('t') == 'cb':
                a.pop('shim', None)
    return p

def _walk_args(step):
    from simkit.world import _walk_specs
    return _walk_specs(step)

def run_two_pass(prog, child_fn, timeout, mode=None, judge=None):
    """Pass A executes the program fault-free (all oracles on; per-step event
    counts recorded); pass B executes it with the faults placed against those
    counts.  A program without unresolved faults (fault-free run, or a replay
    file) is a single pass.  child_fn(prog, survey, survey_in) runs inside the
    forked child and returns {'violations','stats','digest','program',...}."""
    import json
    from simkit.driver import merge_stats
    if not has_unresolved_faults(prog):
        st, val = isolate.call(child_fn, (prog, None, None), timeout=timeout, mode=mode)
        if st == 'timeout':
            return {'status': 'inconclusive'}
        if st != 'ok':
            raise RuntimeError('run child crashed: %s' % (val,))
        val['passes'] = 1
        if judge:
            judge(val)
        return val
    pa = json.loads(json.dumps(prog))
    st, A = isolate.call(child_fn, (pa, {}, None), timeout=timeout, mode=mode)
    if st == 'timeout':
        return {'status': 'inconclusive'}
    if st != 'ok':
        raise RuntimeError('run child (pass A) crashed: %s' % (A,))
    if judge:
        judge(A)
    if A.get('violations'):
        A['program'] = strip_all_faults(A.get('program') or pa)
        A['program']['pass'] = 'A (fault-free)'
        A['passes'] = 1
        return A
    st, B = isolate.call(child_fn, (prog, None, A.get('survey') or {}), timeout=timeout, mode=mode)
    if st == 'timeout':
        return {'status': 'inconclusive'}
    if st != 'ok':
        raise RuntimeError('run child (pass B) crashed: %s' % (B,))
    if judge:
        judge(B)
    merged = {}
    merge_stats(merged, A.get('stats', {}))
    merge_stats(merged, B.get('stats', {}))
    B['stats'] = merged
    B['digest'] = hashlib.sha256((str(A.get('digest')) + str(B.get('digest'))).encode()).hexdigest()
    B['passes'] = 2
    return B


# ---------------------------------------------------------------------------
# doc scripts: slicing and pre-screen

def doc_slice_steps(rng, script, bad, maxlen=10, prec_hi=400):
    """Steps for a slice of one doc script.  Statements before the window that
    only define names are included as setup.  Precision assignments are
    rewritten to PRNG-chosen precisions (model updates)."""
    stmts = script['stmts']
    n = len(stmts)
    if rng.random() < 0.5 or n <= maxlen:
        a = 0
    else:
        a = rng.randint(0, n - 1)
    b = min(n, a + rng.randint(2, maxlen))
    steps = []
    sid = script['id']
    for i in range(0, b):
        s = stmts[i]
        if (sid, i) in bad:
            continue
        if s.kind == 'assign':
            if s.target not in ('mp', 'iv', 'fp'):
                continue
            if i < a and rng.random() < 0.7:
                continue
            if rng.random() < 0.5:
                steps.append({'kind': 'setprec', 'actor': s.target, 'value': {'t': 'int', 'v': pick_prec(rng, prec_hi)}, 'doc': sid})
            else:
                steps.append({'kind': 'setdps', 'actor': s.target, 'value': {'t': 'int', 'v': pick_dps(rng, prec_hi // 4)}, 'doc': sid})
            continue
        if s.kind == 'default':
            if s.target in ('mp',):
                steps.append({'kind': 'default', 'actor': s.target, 'doc': sid})
            continue
        if i < a and not s.is_setup:
            continue
        steps.append({'kind': 'stmt', 'actor': 'mp', 'script': sid, 'src': s.src, 'setup': i < a})
    return steps

def prescreen(scripts, budget, workers=16, timeout=120):
    """Run every script once (at its own precisions) in children under the step
    budget; return the set of (script id, stmt index) that exceed the budget,
    hang, or fail to compile.  Documented exceptions are fine."""
    from concurrent.futures import ProcessPoolExecutor
    import multiprocessing
    bad = set()
    stats = {'stmts': 0, 'ok': 0, 'raised': 0, 'over': 0, 'timeout_scripts': 0}
    tasks = [(i, budget) for i in range(len(scripts))]
    global _PRESCREEN_SCRIPTS
    _PRESCREEN_SCRIPTS = scripts
    with ProcessPoolExecutor(workers, mp_context=multiprocessing.get_context('fork')) as ex:
        for i, res in zip(range(len(scripts)), ex.map(_prescreen_one, tasks, chunksize=2)):
            sid = scripts[i]['id']
            if res is None:
                stats['timeout_scripts'] += 1
                for j in range(len(scripts[i]['stmts'])):
                    bad.add((sid, j))
                continue
            for j, st in res:
                stats['stmts'] += 1
                if st == 'ok':
                    stats['ok'] += 1
                elif st == 'raised':
                    stats['raised'] += 1
                else:
                    stats['over'] += 1
                    bad.add((sid, j))
    return bad, stats

_PRESCREEN_SCRIPTS = None

def _prescreen_one(task):
    i, budget = task
    script = _PRESCREEN_SCRIPTS[i]
    def child():
        w = World(budget=budget, resolve=False)
        out = []
        over = False
        total = 0
        for j, s in enumerate(script['stmts']):
            if total > 6 * budget:
                out.append((j, 'over'))      # script too heavy as a whole: rest is excluded
                continue
            step = {'kind': 'stmt', 'actor': 'mp', 'script': script['id'], 'src': s.src, 'id': j}
            rec, res = w.exec_leaf(step)
            total += rec.get('starts', 0)
            if rec['status'] == 'argerror':
                out.append((j, 'compile'))
            elif rec.get('fired'):
                out.append((j, 'over'))
                # state after an aborted statement is unknown: later statements are
                # still run (they may be independent) but at restored precision
                w.actors['mp'].prec = 53
            elif rec['status'] == 'raised':
                out.append((j, 'raised'))
            else:
                out.append((j, 'ok'))
        return out
    st, val = isolate.call(child, timeout=90)
    if st != 'ok':
        return None
    return val
