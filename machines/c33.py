"""C33 - cached state never leaks stale or wrong results into later calls.

Search space: histories of evaluations at random precisions (grouped by the
cache they fill), matrix object mutations, memoized functions, context
switches and calls aborted by injected interrupts (F3, line-granular, uniform /
late / store-adjacent placement), raising callbacks (F1) and re-entrant
callbacks (F4), followed by probes.  Oracle: the same probe in the pristine
state (rounding-level tolerance per class, exact equality for exact classes).
"""
import json
from simkit import codec, compare, isolate
from simkit.world import World
from simkit import minimise as _min
from machines import common, refs
from machines.common import pick_prec
from ops import catalogue
from ops.catalogue import I

GROUPS = {
    'const': ['const_pi', 'const_e', 'const_ln2', 'const_ln10', 'const_phi', 'const_euler', 'const_catalan', 'const_apery',
              'const_degree', 'constmul_pi', 'constmul_e', 'constmul_ln2', 'constmul_euler', 'const_glaisher', 'const_khinchin',
              'const_mertens', 'const_twinprime'],
    'elem': ['exp', 'ln', 'sin', 'cos', 'atan', 'log_b', 'power', 'cosh', 'asin', 'expj', 'tan', 'ln_int', 'exp_hi', 'ln_hi', 'atan_hi',
             'sin_hi', 'cos_hi', 'log10', 'sinpi', 'asinh', 'op_pow_rr', 'cos_sin'],
    'bern': ['bernoulli', 'bernfrac', 'bernpoly', 'zeta_int', 'gamma', 'loggamma', 'psi', 'harmonic', 'polygamma', 'tan', 'loggamma_big',
             'eulerpoly', 'zeta', 'siegeltheta'],
    'gamma': ['gamma', 'gamma_halfint_hi', 'rgamma_halfint_hi', 'gamma_big', 'loggamma_halfint_hi', 'factorial_halfint_hi', 'gamma_int', 'loggamma', 'loggamma_big', 'rgamma', 'factorial', 'factorial_int', 'factorial_big',
              'psi', 'beta', 'binomial', 'rf', 'gammaprod', 'superfac', 'fac2', 'binomial_int', 'gamma_vhi', 'gamma_vhi', 'rgamma_vhi'],
    'zeta': ['zeta', 'zeta_int', 'stieltjes', 'hurwitz', 'zeta_rs', 'altzeta', 'siegelz', 'primezeta', 'zetazero', 'grampoint',
             'riemannr', 'polylog', 'dirichlet', 'nzeros', 'backlunds', 'zeta_rs_hi', 'siegelz_hi'],
    'ints': ['factorial_big', 'fac2', 'fib_int', 'eulernum', 'eulernum_exact', 'stirling1', 'stirling2', 'stirling1_exact',
             'stirling2_exact', 'bernfrac', 'binomial_int', 'list_primes', 'isprime', 'moebius', 'primepi', 'bell', 'mangoldt'],
    # primepi2 is deliberately absent: it returns an interval of the `iv` context, whose width is governed by
    # iv.prec by specification - an explicit iv.prec assignment in the history is an input, not a leak.
    'quad': ['quad', 'quad_lor', 'quad_split', 'quadgl', 'quadgl_ce', 'quadts', 'quad2d', 'quad_method', 'nsum', 'nsum_alt', 'sumem',
             'diff', 'taylor', 'nsum_geom', 'limit'],
    'hyp': ['hyp0f1', 'hyp1f1', 'hyp2f1', 'hyp2f1_out', 'hyp1f2', 'hyp2f0', 'hyp3f2', 'hyper', 'legendre', 'chebyt', 'hermite',
            'laguerre', 'jacobi', 'besselj', 'bessely', 'besseli', 'besselk', 'erf', 'gammainc', 'expint', 'ellipk', 'ellipe', 'agm'],
    'rational': ['zeta_rat_tuple', 'hyper_rat_tuple', 'hyp1f1_rat_tuple', 'hyp2f1_rat_tuple', 'besselj_half', 'hyp1f1_half', 'besselj', 'hyp1f1',
                 'legenp', 'hermite_r', 'gegenbauer'],
    'rules': ['invertlaplace_deg', 'invertlaplace_stehfest16', 'invertlaplace_sin', 'invertlaplace', 'quad_method', 'quadosc', 'nsum_levin', 'nsum', 'sumem', 'chebyfit', 'fourier',
              'polyroots', 'findroot_solver', 'pade', 'gauss_quadrature'],
    'bess': ['airyai', 'airybi', 'airyai_d', 'airyaizero', 'coulombf', 'coulombg', 'coulombc', 'besseljzero', 'besselyzero', 'struveh',
             'hankel1', 'ker', 'pcfd', 'whitm', 'hyperu', 'airybizero'],
}
EXCLUDE = frozenset(['primepi2', 'rand', 'randmatrix'])
# callback-taking entries that may be probed / laddered (their callbacks are pure functions of the argument)
CB_OK = frozenset(['quad', 'quadgl', 'quad_lor', 'quadts', 'nsum', 'diff', 'invertlaplace_deg', 'invertlaplace_stehfest16', 'invertlaplace_sin', 'quad_method',
                   'nsum_levin', 'chebyfit', 'findroot_solver', 'sumem'])
# thresholds of the series caches in libelefun
ELEM_PRECS = [380, 399, 400, 401, 420, 2480, 2499, 2500, 2501, 2520, 2980, 2999, 3000, 3001, 3020, 600, 1500]

class Machine(object):
    PROP = 'C33'
    DEFAULT_SEED = 3301
    RUNS = {'quick': 1500, 'thorough': 25000}
    WALL = {'quick': 170, 'thorough': 1500}
    MIN_WALL = 120
    BUDGET = {'quick': 300000, 'thorough': 1000000}
    RUN_TIMEOUT = 300

    def setup(self, tier, workers, replay=False):
        self.tier = tier

    def generate(self, rng, tier):
        return _Gen(self, rng, tier).program()

    def run(self, prog, mode=None):
        budget = prog.get('config', {}).get('budget', self.BUDGET['quick'])
        seed_base = str(prog.get('seed', 0)).encode()
        def child(prog, survey, survey_in):
            w = World(budget=budget, survey=survey, survey_in=survey_in)
            w.seed_base = seed_base
            ex = common.Exec(w, 'C33')
            ex.records = []
            ex.rare = {}
            ex.sites = set()
            ex.sigs = set()
            ex.pre_fn = _pre
            ex.check_fn = _collect
            ex.run(prog['steps'])
            st = {'world': w.stats, 'rare': ex.rare, 'sites': ex.sites, 'cache_signatures': ex.sigs,
                  'passes': {'fault_free' if survey_in is None else 'faulted': 1}}
            return {'violations': ex.viol, 'stats': st, 'digest': w.digest(), 'program': prog, 'survey': survey,
                    'records': ex.records}
        def judge(res):
            _judge(res, mode, seed_base)
        if prog.get('config', {}).get('sitesweep') and common.has_unresolved_faults(prog):
            return self._site_sweep(prog, child, judge, mode)
        return common.run_two_pass(prog, child, self.RUN_TIMEOUT, mode=mode, judge=judge)

    def _site_sweep(self, prog, child, judge, mode):
        """Crash-point enumeration for one operation: pass A (fault-free) lists the
        state-mutating lines the faulted step executes; then the program is executed
        once per such line (first and last occurrence), interrupted right after it.
        A violating variant is returned with its fault address resolved, so it replays
        as an ordinary single-pass program."""
        from simkit.driver import merge_stats
        pa = json.loads(json.dumps(prog))
        st, A = isolate.call(child, (pa, {}, None), timeout=self.RUN_TIMEOUT, mode=mode)
        if st == 'timeout':
            return {'status': 'inconclusive'}
        if st != 'ok':
            raise RuntimeError('run child (sweep pass A) crashed: %s' % (A,))
        judge(A)
        if A.get('violations'):
            A['program'] = common.strip_all_faults(A.get('program') or pa)
            return A
        total = {}
        merge_stats(total, A.get('stats', {}))
        digests = [str(A.get('digest'))]
        fstep = None
        for s in prog['steps']:
            if s.get('fault') and not s['fault'].get('resolved'):
                fstep = s
                break
        sites = ((A.get('survey') or {}).get(fstep.get('id')) or {}).get('sites') or []
        out = None
        n = 0
        for f, ln, cnt, fn in sites[:self.SWEEP_SITES]:
            for occ in sorted(set([1, cnt])):
                pb = json.loads(json.dumps(prog))
                for s in pb['steps']:
                    if s.get('id') == fstep.get('id'):
                        s['fault'] = {'kind': 'F3', 'site': [f, ln, occ], 'func': fn, 'resolved': True, 'placement': 'enumerated'}
                st, B = isolate.call(child, (pb, None, {}), timeout=self.RUN_TIMEOUT, mode=mode)
                if st != 'ok':
                    continue
                judge(B)
                n += 1
                merge_stats(total, B.get('stats', {}))
                digests.append(str(B.get('digest')))
                if B.get('violations') and out is None:
                    out = B
                    out['program'] = pb
            if out is not None:
                break
        total.setdefault('rare', {})['crash_points_enumerated'] = n
        import hashlib
        res = out or {'violations': [], 'program': prog}
        res['stats'] = total
        res['digest'] = hashlib.sha256(''.join(digests).encode()).hexdigest()
        res.pop('records', None)
        return res

    SWEEP_SITES = 40

    def simplify(self, prog):
        for cand in _min.generic_simplify(prog):
            ok = True
            for a, b in zip(prog['steps'], cand['steps']):
                if a.get('judge') and a.get('args') != b.get('args'):
                    ok = False
            if ok:
                yield cand

    def sample_view(self, prog):
        from machines.c11 import _brief
        return {'seed': prog.get('seed'), 'config': prog.get('config'), 'steps': [_brief(s) for s in prog.get('steps', [])][:40]}

    def evidence(self, agg, tier):
        w = agg.get('world', {})
        j = agg.get('judge', {})
        cov = {
            'distinct_nontrivial': len(agg.get('cases', set())),
            'rule': ('a case is one simulated history (5-40 evaluations at seeded precisions grouped by the cache they fill, matrix '
                     'mutations, memoized functions, <= 3 injected faults, then probes); non-trivial+distinct = distinct '
                     '(probe entry point, probe precision relative to the history: below/equal/above, whether an aborted call preceded, '
                     'cache group of the history) tuples for which a probe value was compared with its pristine-state value'),
            'probes_judged': j.get('judged', 0),
            'probes_bit_identical_to_pristine': j.get('identical', 0),
            'probes_within_rounding_level': j.get('within', 0),
            'probes_inadmissible_skipped': j.get('inadmissible', 0),
            'probes_skipped_budget_or_timeout': j.get('skipped', 0),
            'bit_identical_rate': round(j.get('identical', 0) / max(1, j.get('judged', 0)), 5),
            'probes_after_an_aborted_call': j.get('after_abort', 0),
            'pristine_reference_evaluations': j.get('ref_evals', 0),
            'steps_executed': w.get('steps', 0),
            'step_clock_py_start_events': w.get('starts', 0),
            'line_events': w.get('lines', 0),
            'faults_fired_by_kind': w.get('fired', {}),
            'faults_planned_but_not_fired': w.get('notfired', 0),
            'faults_absorbed': w.get('absorbed', 0),
            'distinct_fault_sites': len(agg.get('sites', set())),
            'fault_sites_sample': sorted(agg.get('sites', set()))[:60],
            'rare_conditions': agg.get('rare', {}),
            'entry_points_probed': len(agg.get('probed', set())),
            'distinct_cache_state_signatures_before_a_probe': len(agg.get('cache_signatures', set())),
            'real_vs_stub': {'real': ['all of mpmath from the working tree', 'CPython 3.12'],
                             'stub': ['user callbacks', 'pristine-state reference (snapshot restore, validated against fork isolation)']},
        }
        return {'coverage': cov, 'assumptions': [
            'resolution limit: a cache reused at up to t+2 bits less accuracy than requested is below this oracle (t = 4/8/10 by class)',
            'the pristine-state value is mpmath judging itself; probes where mpmath misses its own accuracy bound are skipped, not blamed',
            'every reported violation was re-confirmed in a freshly forked pristine child']}


def _snapshot_objs(ex, st):
    """Replace object references of a judged step by snapshots of what the
    objects hold *now* (the reference is built from the final entries, so an
    aborted user assignment is not blamed)."""
    out = []
    changed = False
    for a in st.get('args', []):
        if a.get('t') == 'obj':
            o = ex.w.vals.get(a['i'])
            if o is not None and hasattr(o, 'rows') and hasattr(o, 'tolist'):
                try:
                    e = codec.encode(o)
                    out.append({'t': 'matrixraw', 'rows': e[1], 'cols': e[2], 'v': e[3]})
                    changed = True
                    continue
                except BaseException:
                    pass
            out.append(a)
        else:
            out.append(a)
    return out if changed else None

def _pre(ex, st):
    if st.get('judge'):
        snap = _snapshot_objs(ex, st)
        if snap is not None:
            st['_refargs'] = snap

def _collect(ex, step, rec, where):
    if rec is not None and rec.get('fired'):
        f = rec['fired']
        ex.sites.add('%s:%s:%s' % (f.get('file', f.get('cb')), f.get('func', ''), f.get('line', '')))
        if f.get('after_store'):
            ex.rare['interrupt_after_store'] = ex.rare.get('interrupt_after_store', 0) + 1
        if f.get('kind') == 'F4':
            ex.rare['callback_reentered_library'] = ex.rare.get('callback_reentered_library', 0) + 1
        if rec.get('status') == 'faulted':
            for name in list(ex.w.actors):
                ex.resync(name)             # aborted call: precision re-asserted (DESIGN 2.4)
            ex.after_abort = True
    # precision sanity net (C11's business, but a leaked precision would poison every probe)
    for name in list(ex.w.actors):
        ctx = ex.w.actors[name]
        if (ctx.prec, ctx.dps) != ex.model.get(name):
            ex.resync(name)
            ex.rare['precision_resynced'] = ex.rare.get('precision_resynced', 0) + 1
    if rec is None or not step.get('judge') or step.get('kind') not in ('call', 'probe'):
        return
    # a re-entrant callback (F4) is an interleaving, not a fault: the outer call's own result is judged
    # (against the pristine evaluation, whose callback does not re-enter the library)
    reentry = bool(rec.get('fired')) and rec['fired'].get('kind') == 'F4'
    r = {'step': dict((k, v) for k, v in step.items() if k not in ('fault', '_refargs')),
         'status': rec.get('status'), 'fired': None if reentry else rec.get('fired'),
         'after_abort': bool(getattr(ex, 'after_abort', False)),
         'prec': ex.model.get(step.get('actor', 'mp'))[0], 'starts': rec.get('starts', 0)}
    ex.sigs.add(common.cache_signature(ex.w))
    if '_refargs' in step:
        r['step']['args'] = step.pop('_refargs')
    if rec.get('status') == 'ok' or (reentry and rec.get('status') == 'absorbed'):
        r['value'] = codec.encode(rec.get('_res'))
    elif rec.get('status') in ('raised', 'faulted'):
        r['value'] = rec.get('exc')
    else:
        return
    ex.records.append(r)

def _judge(res, mode, seed_base):
    viol = res.setdefault('violations', [])
    st = res.setdefault('stats', {})
    j = st.setdefault('judge', {})
    cases = st.setdefault('cases', set())
    probed = st.setdefault('probed', set())
    def bump(k, n=1):
        j[k] = j.get(k, 0) + n
    before = refs.STATS['evals']
    for r in res.get('records', []):
        step = r['step']
        if r['fired']:
            continue                      # the result of a faulted / absorbed operation is never judged
        h = r['value']
        if h and h[0] == 'exc' and h[1] in ('SimBudget', 'RunTimeout'):
            bump('skipped')
            continue
        p = r['prec']
        actor = step.get('actor', 'mp')
        if any(a.get('t') == 'obj' for a in step.get('args', [])) and not step.get('ref_setup'):
            bump('skipped')
            continue
        f = refs.pristine_eval(step, p, mode=mode, setup=step.get('ref_setup'), seed_base=seed_base)
        if f is None:
            bump('skipped')
            continue
        t = step.get('tol', 8)
        exact = bool(step.get('exact'))
        pp = 53 if actor == 'fp' else p
        if actor == 'fp':
            t = max(t, 8)
        def get_R():
            if actor == 'fp':
                return None
            # high-precision reference: 2p+64 bits (p+200 is as good for judging p-bit values and cheaper for large p)
            return refs.pristine_eval(step, min(2 * p + 64, p + 200), mode=mode, setup=step.get('ref_setup'), seed_base=seed_base)
        verdict, detail = compare.compare(h, f, get_R, pp, max(t, 12) if actor == 'fp' else t, exact, direct=(actor == 'fp'))
        bump('judged')
        bump(verdict)
        if r['after_abort']:
            bump('after_abort')
        key = step.get('key') or step.get('op')
        probed.add(key)
        cases.add((key, step.get('rel', '?'), r['after_abort'], step.get('group', '?')))
        if verdict == 'violation':
            d = {'op': step.get('op'), 'key': key, 'prec': p, 'actor': actor, 'after_abort': r['after_abort'], 'tol_class': t,
                 'exact_class': exact}
            d.update(detail or {})
            viol.append({'property': 'C33', 'check': 'probe-vs-pristine', 'entry': key, 'step': step.get('id'), 'detail': d})
    bump('ref_evals', refs.STATS['evals'] - before)
    res.pop('records', None)


class _Gen(object):
    def __init__(self, m, rng, tier):
        self.rng = r = rng
        self.tier = tier
        self.nid = 0
        self.maxcost = 2 if r.random() < (0.9 if tier == 'quick' else 0.6) else 3
        names = list(GROUPS)
        self.groups = r.sample(names, r.choice([1, 1, 2, 3]))
        self.special = r.choice(['none', 'none', 'matrix', 'matrix', 'memoize', 'both'])
        self.fault_rate = r.choice([0.0, 0.0, 0.15, 0.3, 0.5])
        self.kinds = [k for k in ('F3', 'F1', 'F4') if r.random() < 0.7] or ['F3']
        self.placement = r.choice(['uniform', 'late', 'store', 'store'])
        self.nhist = r.randint(5, 32)
        self.judge_rate = r.choice([0.0, 0.3, 0.6])
        self.actors = ['mp'] + (['c1'] if r.random() < (0.5 if self.special in ('matrix', 'both') else 0.25) else []) + \
                      (['fp'] if r.random() < 0.15 else []) + (['iv'] if r.random() < 0.15 else [])
        self.hi = 3200 if 'elem' in self.groups else r.choice([200, 400, 1200])
        self.cfg = {'groups': self.groups, 'special': self.special, 'fault_rate': self.fault_rate, 'fault_kinds': self.kinds,
                    'placement': self.placement, 'budget': m.BUDGET[tier], 'actors': self.actors}
        self.cfgw = {'maxwidth': 200, 'nostr': False}
        self.precs = {}
        self.hist_calls = []
        self.nfault = 0
        self.cur = {'mp': 53, 'c1': 53, 'iv': 53, 'fp': 53}
        self.mats = []
        self.memo = None

    def new_id(self):
        self.nid += 1
        return self.nid

    def entry_pool(self, actor):
        kind = 'mp' if actor in ('mp', 'c1') else actor
        keys = []
        for g in self.groups:
            keys.extend(GROUPS[g])
        ents = [catalogue.BY_KEY[k] for k in keys if k in catalogue.BY_KEY]
        ents = [e for e in ents if kind in e.ctxs and e.cost <= self.maxcost]
        return ents

    def setprec(self, actor, p):
        self.cur[actor] = p
        self.precs.setdefault(actor, []).append(p)
        return {'kind': 'setprec', 'actor': actor, 'value': I(p), 'id': self.new_id()}

    def pick_hist_prec(self, e):
        r = self.rng
        hi = min(self.hi, e.maxprec)
        if e.key.endswith('_vhi'):
            # above 1000 bits the gamma Taylor coefficients are cached at 1.2x the precision: pairs inside that window
            return r.choice([1100, 2000, 2600, 2900, 3000, 3000, 3040, 3080])
        if e.key.endswith('_hi') or ('elem' in self.groups and r.random() < 0.3 and e.maxprec >= 3000):
            return min(hi, r.choice(ELEM_PRECS) + r.randint(-2, 2))
        return pick_prec(r, hi)

    def maybe_fault(self, st, e):
        r = self.rng
        u1, u2, u3 = r.random(), r.random(), r.random()
        if u1 >= self.fault_rate or self.nfault >= 3:
            return
        kinds = list(self.kinds)
        if not e.cb:
            kinds = [k for k in kinds if k == 'F3']
        if not kinds:
            return
        k = kinds[int(u2 * len(kinds))]
        if k == 'F3':
            st['fault'] = {'kind': 'F3', 'u': u3, 'placement': self.placement}
        elif k == 'F1':
            st['fault'] = {'kind': 'F1', 'u': u3, 'slot': 0, 'act': 'raise'}
        else:
            other = r.choice(self.actors)
            nested = catalogue.BY_KEY[r.choice(['quad', 'gamma', 'zeta_int', 'exp', 'const_pi', 'besselj', 'bernoulli', 'quadgl'])].gen(r, self.cfgw, actor=other if other not in ('fp', 'iv') else 'mp')
            nested['workprec'] = pick_prec(r, 300)
            nested.pop('key', None)
            st['fault'] = {'kind': 'F4', 'u': u3, 'slot': 0, 'act': 'nested', 'step': nested}
            if e.key not in EXCLUDE:
                st.update({'judge': True, 'tol': e.tol or 2, 'exact': bool(e.exact), 'rel': 'reentry', 'group': '+'.join(self.groups)})
        self.nfault += 1

    def call(self, actor, e, judge=False, probe=False, reuse=None, rel='hist'):
        r = self.rng
        st = e.gen(r, self.cfgw, actor=actor)
        if reuse is not None:
            st['args'] = json.loads(json.dumps(reuse.get('args', [])))
            if 'kwargs' in reuse:
                st['kwargs'] = json.loads(json.dumps(reuse['kwargs']))
        st['id'] = self.new_id()
        # judged steps must be self-contained: no precision keywords mixing (fine), no refs
        if judge or probe:
            st['judge'] = True
            st['tol'] = e.tol if e.tol else 2
            st['exact'] = bool(e.exact)
            st['rel'] = rel
            st['group'] = '+'.join(self.groups)
        if probe:
            st['kind'] = 'probe'
        return st

    def probes(self, steps, n, after_abort=False):
        """probes at precisions below / equal to / above those the history used"""
        r = self.rng
        for _ in range(n):
            actor = r.choice(self.actors)
            ents = self.entry_pool(actor) if r.random() < 0.75 else catalogue.entries(ctx='mp' if actor in ('mp', 'c1') else actor, maxcost=min(2, self.maxcost))
            ents = [e for e in ents if (not e.cb or e.key in CB_OK) and e.key not in EXCLUDE]
            if not ents:
                continue
            e = r.choice(ents)
            same = [s for s in self.hist_calls if s.get('key') == e.key and s.get('actor') == actor]
            reuse = r.choice(same) if (same and r.random() < 0.6) else None
            used = self.precs.get(actor) or [53]
            base = r.choice(used)
            rel = r.choice(['below', 'equal', 'above'])
            if rel == 'below':
                p = max(1, base - r.choice([1, 7, 20, base // 2]))
            elif rel == 'above':
                p = base + r.choice([1, 7, 20, 64, base // 2 + 1])
            else:
                p = base
            p = max(1, min(p, e.maxprec, 3300))
            st = self.call(actor, e, probe=True, reuse=reuse, rel=rel)
            st['prec'] = p
            self.cur[actor] = p
            steps.append(st)

    def sitesweep_program(self):
        """one operation, interrupted at every state-mutating line it executes (see Machine._site_sweep):
        [same call fault-free]? ; the call, interrupted ; precision re-asserted ; the same call again ;
        the same entry point on other arguments ; one or two unrelated probes"""
        r = self.rng
        actor = 'mp'
        keys = []
        for g in GROUPS:
            keys.extend(GROUPS[g])
        keys = sorted(set(keys))
        ents = [catalogue.BY_KEY[k] for k in keys if k in catalogue.BY_KEY]
        ents = [e for e in ents if 'mp' in e.ctxs and e.cost <= 2 and e.key not in EXCLUDE and not e.key.endswith('_vhi')]
        if r.random() < 0.3:
            ents = [e for e in catalogue.entries(ctx='mp', maxcost=2) if e.key not in EXCLUDE and not e.key.endswith('_vhi')]
        e = r.choice(ents)
        self.cfg['sitesweep'] = e.key
        p = pick_prec(r, min(e.maxprec, 300))
        steps = [self.setprec(actor, p)]
        first = self.call(actor, e, judge=False)
        warm = r.random() < 0.5
        if warm:
            steps.append(first)                       # caches filled by a complete call first
            target = self.call(actor, e, judge=False, reuse=first)
        else:
            target = first                            # the interrupted call is the one that fills the caches
        target['fault'] = {'kind': 'F3', 'u': 0.0, 'placement': 'store'}
        steps.append(target)
        steps.append({'kind': 'reassert', 'id': self.new_id()})
        steps.append(self.call(actor, e, judge=True, reuse=target, rel='retry'))
        other = self.call(actor, e, judge=True, rel='equal')
        steps.append(other)
        if r.random() < 0.5:
            q = max(1, min(e.maxprec, p + r.choice([-20, 13, 64])))
            steps.append(self.setprec(actor, q))
            steps.append(self.call(actor, e, judge=True, reuse=target, rel='above' if q > p else 'below'))
        self.probes(steps, r.randint(1, 2), after_abort=True)
        return {'config': self.cfg, 'steps': steps}

    def ladder_program(self):
        """one entry point, the same arguments, a ladder of precisions (ascending, descending or up-down), every
        rung judged against the pristine state: 'never reused at a lower accuracy than requested', entry by entry"""
        r = self.rng
        actor = 'mp'
        ok = lambda e: ('mp' in e.ctxs and e.cost <= 2 and e.key not in EXCLUDE and not e.key.endswith('_vhi')
                        and (not e.cb or e.key in CB_OK))
        c = r.random()
        if c < 0.2:
            ents = [e for e in catalogue.entries(ctx='mp', maxcost=2) if ok(e)]
        else:
            # one cache family, and within it half of the time one of its first four members
            # (the routines that own the cache; the others merely use it)
            g = r.choice(sorted(GROUPS))
            keys = GROUPS[g][:4] if c < 0.6 else GROUPS[g]
            ents = [catalogue.BY_KEY[k] for k in keys if k in catalogue.BY_KEY and ok(catalogue.BY_KEY[k])]
            if not ents:
                ents = [e for e in catalogue.entries(ctx='mp', maxcost=2) if ok(e)]
        e = r.choice(ents)
        self.cfg['ladder'] = e.key
        hi = min(e.maxprec, 700)
        flavour = r.choice(['random', 'bucket', 'bucket', 'window', 'near'])
        self.cfg['ladder_flavour'] = flavour
        base = pick_prec(r, hi)
        if e.key.endswith('_hi'):
            # entries that exist for a high-precision path (series thresholds, the tables behind gamma at 400+ bits)
            hi = e.maxprec
            base = max(1, min(hi, r.choice(ELEM_PRECS) + r.randint(-2, 2)))
        if flavour == 'bucket':
            # two or three precisions of one 32-bit bucket, far enough apart for a reuse to show
            b = (base // 32) * 32
            lo = b + r.randint(0, 9)
            ps = set([lo, lo + r.randint(13, 22)])
            if r.random() < 0.4:
                ps.add(b + 32 + r.randint(0, 9))
        elif flavour == 'window':
            # inside the reuse windows of tables stored at 1.05 p + 10 / 1.2 p
            ps = set([base, int(base * r.choice([1.02, 1.04, 1.05, 1.1, 1.19])) + r.choice([0, 5, 10, 11])])
        elif flavour == 'near':
            ps = set([base])
            for _ in range(r.randint(1, 3)):
                ps.add(base + r.choice([-31, -20, -12, -7, -3, -1, 1, 3, 7, 12, 20, 31]))
        else:
            ps = set(pick_prec(r, hi) for _ in range(r.randint(2, 4)))
        ps = sorted(set(max(1, min(e.maxprec, p)) for p in ps))
        if len(ps) < 2:
            ps = sorted(set([ps[0], max(1, min(e.maxprec, ps[0] + 37)), max(1, ps[0] - 17)]))
        order = r.choice(['asc', 'asc', 'desc', 'updown'])
        seq = ps if order == 'asc' else (ps[::-1] if order == 'desc' else ps + ps[-2::-1])
        steps = []
        first = None
        last = None
        for p in seq:
            steps.append(self.setprec(actor, p))
            st = self.call(actor, e, judge=True, reuse=first, rel='equal' if last is None else ('above' if p > last else 'below'))
            if first is None:
                first = st
            steps.append(st)
            self.hist_calls.append(st)
            last = p
            if r.random() < 0.25:
                steps.append(self.call(actor, e, judge=True, rel='equal'))     # other arguments on the same rung
        self.probes(steps, r.randint(1, 3))
        return {'config': self.cfg, 'steps': steps}

    def program(self):
        r = self.rng
        c0 = r.random()
        if c0 < 0.15:
            return self.sitesweep_program()
        if c0 < 0.45:
            return self.ladder_program()
        steps = []
        if 'c1' in self.actors:
            steps.append({'kind': 'clone', 'actor': 'c1', 'parent': 'mp', 'id': self.new_id()})
        while len(steps) < self.nhist:
            c = r.random()
            actor = r.choice(self.actors)
            if self.special in ('matrix', 'both') and c < 0.35:
                self.matrix_steps(steps)
                continue
            if self.special in ('memoize', 'both') and c < 0.5:
                self.memo_steps(steps)
                continue
            ents = self.entry_pool(actor) if r.random() < 0.8 else catalogue.entries(ctx='mp' if actor in ('mp', 'c1') else actor, maxcost=min(2, self.maxcost))
            if not ents:
                continue
            e = r.choice(ents)
            if actor not in ('fp',) and (r.random() < 0.5 or self.cur[actor] > e.maxprec or e.key.endswith('_vhi')):
                steps.append(self.setprec(actor, self.pick_hist_prec(e)))
            same = [s for s in self.hist_calls if s.get('key') == e.key and s.get('actor') == actor]
            st = self.call(actor, e, judge=(r.random() < self.judge_rate and e.key not in EXCLUDE),
                           reuse=r.choice(same) if (same and r.random() < 0.4) else None)
            self.maybe_fault(st, e)
            steps.append(st)
            self.hist_calls.append(st)
            if e.key.endswith('_vhi') and 'fault' not in st and r.random() < 0.7:
                # the same arguments again at the upper end of the 1.2x reuse window of the coefficient cache
                p2 = min(e.maxprec, int(self.cur[actor] * r.choice([1.19, 1.2, 1.2, 1.205])))
                steps.append(self.setprec(actor, p2))
                st2 = self.call(actor, e, judge=True, reuse=st, rel='above')
                steps.append(st2)
            if 'fault' in st:
                steps.append({'kind': 'reassert', 'id': self.new_id()})
                if e.key not in EXCLUDE:
                    # what a user does after an interrupted call: the very same call again
                    retry = self.call(actor, e, judge=True, reuse=st, rel='retry')
                    steps.append(retry)
                self.probes(steps, r.randint(2, 5), after_abort=True)
        self.probes(steps, r.randint(3, 8))
        return {'config': self.cfg, 'steps': steps}

    # -- matrix objects -----------------------------------------------------------
    def matrix_steps(self, steps):
        """one matrix step; a mutation is (usually) sandwiched between a decomposition that fills the
        object's cache and a judged decomposition of the mutated object"""
        r = self.rng
        before = len(steps)
        self._matrix_one(steps)
        mut = [s for s in steps[before:] if s.get('op') in ('setitem:', 'setattr:rows', 'setattr:cols', 'f:swap_row')
               and 'k' not in s['args'][0]]
        if mut and r.random() < 0.7:
            obj = json.loads(json.dumps(mut[0]['args'][0]))
            def dec():
                op = r.choice(['f:LU_decomp', 'f:lu'])
                return {'kind': 'call', 'actor': 'mp', 'op': op, 'args': [json.loads(json.dumps(obj))], 'id': self.new_id(),
                        'key': 'mat_' + op[2:], 'judge': True, 'tol': 16, 'exact': False, 'rel': 'hist', 'group': 'matrix'}
            steps.insert(before, dec())
            steps.append(dec())

    def _matrix_one(self, steps):
        r = self.rng
        if not self.mats or r.random() < 0.2:
            n = r.randint(2, 5)
            mk = {'kind': 'call', 'actor': 'mp', 'op': 'f:matrix', 'args': [catalogue.mat_spec(r, n, n)], 'id': self.new_id()}
            steps.append(mk)
            self.mats.append({'id': mk['id'], 'n': n})
            return
        m = r.choice(self.mats)
        n = m['n']
        obj = {'t': 'obj', 'i': m['id']}
        c = r.random()
        if c < 0.2:
            steps.append(self.setprec('mp', pick_prec(r, 400)))
        elif c < 0.55:
            op = r.choice(['f:lu', 'f:LU_decomp', 'f:det', 'f:inverse', 'f:lu_solve', 'f:lu_solve'])
            args = [obj]
            if op == 'f:lu_solve':
                args.append(catalogue.mat_spec(r, n, 1))
            st = {'kind': 'call', 'actor': 'mp', 'op': op, 'args': args, 'id': self.new_id(), 'key': 'mat_' + op[2:],
                  'judge': True, 'tol': 10 + 6, 'exact': False, 'rel': 'hist', 'group': 'matrix'}
            u1, u2 = r.random(), r.random()
            if u1 < self.fault_rate and self.nfault < 3 and 'F3' in self.kinds:
                st['fault'] = {'kind': 'F3', 'u': u2, 'placement': self.placement}
                self.nfault += 1
            steps.append(st)
            if 'fault' in st:
                steps.append({'kind': 'reassert', 'id': self.new_id()})
        elif c < 0.75:
            i, j = r.randint(0, n - 1), r.randint(0, n - 1)
            st = {'kind': 'call', 'actor': 'mp', 'op': 'setitem:', 'id': self.new_id(),
                  'args': [obj, {'t': 'tuple', 'v': [I(i), I(j)]}, {'t': 'frac', 'v': [r.randint(-60, 60), r.choice([1, 2, 4])]}]}
            u1, u2 = r.random(), r.random()
            if u1 < self.fault_rate / 2 and self.nfault < 3 and 'F3' in self.kinds:
                st['fault'] = {'kind': 'F3', 'u': u2, 'placement': self.placement}
                self.nfault += 1
            steps.append(st)
        elif c < 0.82 and n > 2:
            # shrink through the public rows/cols attributes
            steps.append({'kind': 'call', 'actor': 'mp', 'op': 'setattr:rows', 'args': [obj, I(n - 1)], 'id': self.new_id()})
            steps.append({'kind': 'call', 'actor': 'mp', 'op': 'setattr:cols', 'args': [obj, I(n - 1)], 'id': self.new_id()})
            m['n'] = n - 1
        elif c < 0.86:
            i = r.randint(0, n - 1)
            j = (i + r.randint(1, max(1, n - 1))) % n
            steps.append({'kind': 'call', 'actor': 'mp', 'op': 'f:swap_row', 'args': [obj, I(i), I(j)], 'id': self.new_id()})
        elif c < 0.90:
            # row / column / block assignment through slices (scalar or a matrix of matching shape)
            i = r.randint(0, n - 1)
            if r.random() < 0.5:
                key = {'t': 'tuple', 'v': [I(i), {'t': 'slice', 'v': [None, None]}]}
                val = catalogue.mat_spec(r, 1, n) if r.random() < 0.6 else {'t': 'frac', 'v': [r.randint(-40, 40), 2]}
            else:
                key = {'t': 'tuple', 'v': [{'t': 'slice', 'v': [None, None]}, I(i)]}
                val = catalogue.mat_spec(r, n, 1) if r.random() < 0.6 else {'t': 'frac', 'v': [r.randint(-40, 40), 2]}
            steps.append({'kind': 'call', 'actor': 'mp', 'op': 'setitem:', 'args': [obj, key, val], 'id': self.new_id()})
        elif c < 0.915:
            # the caller edits the decomposition it was handed (its own object, it may think), then asks again
            d = {'kind': 'call', 'actor': 'mp', 'op': 'f:LU_decomp', 'args': [obj], 'id': self.new_id()}
            steps.append(d)
            i, j = r.randint(0, n - 1), r.randint(0, n - 1)
            if r.random() < 0.7 or n < 3:
                steps.append({'kind': 'call', 'actor': 'mp', 'op': 'setitem:', 'id': self.new_id(),
                              'args': [{'t': 'obj', 'i': d['id'], 'k': 0}, {'t': 'tuple', 'v': [I(i), I(j)]},
                                       {'t': 'frac', 'v': [r.randint(-60, 60), r.choice([1, 2, 4])]}]})
            else:
                steps.append({'kind': 'call', 'actor': 'mp', 'op': 'setitem:', 'id': self.new_id(),
                              'args': [{'t': 'obj', 'i': d['id'], 'k': 1}, I(r.randint(0, n - 2)), I(r.randint(0, n - 1))]})
            op = r.choice(['f:LU_decomp', 'f:lu', 'f:LU_decomp'])
            steps.append({'kind': 'call', 'actor': 'mp', 'op': op, 'args': [json.loads(json.dumps(obj))], 'id': self.new_id(),
                          'key': 'mat_' + op[2:], 'judge': True, 'tol': 16, 'exact': False, 'rel': 'hist', 'group': 'matrix'})
        elif c < 0.935 and ('c1' in self.actors or 'fp' in self.actors):
            # another context decomposes mp's matrix (the entries are mp's numbers, so the arithmetic runs at mp's
            # precision whatever the other context's is); then mp moves to that context's precision and asks itself
            other = 'c1' if 'c1' in self.actors else 'fp'
            p = 53 if other == 'fp' else pick_prec(r, 300)
            if other != 'fp':
                steps.append(self.setprec(other, p))
            steps.append({'kind': 'call', 'actor': other, 'op': r.choice(['f:LU_decomp', 'f:lu']), 'args': [obj], 'id': self.new_id()})
            steps.append(self.setprec('mp', p))
            op = r.choice(['f:LU_decomp', 'f:lu'])
            steps.append({'kind': 'call', 'actor': 'mp', 'op': op, 'args': [json.loads(json.dumps(obj))], 'id': self.new_id(),
                          'key': 'mat_' + op[2:], 'judge': True, 'tol': 16, 'exact': False, 'rel': 'hist', 'group': 'matrix'})
        elif c < 0.945:
            # decomposition that overwrites a *copy* made for the purpose, then the original is used again
            cp = {'kind': 'call', 'actor': 'mp', 'op': 'm:copy', 'args': [obj], 'id': self.new_id()}
            steps.append(cp)
            steps.append({'kind': 'call', 'actor': 'mp', 'op': 'f:LU_decomp', 'args': [{'t': 'obj', 'i': cp['id']}], 'kwargs': {'overwrite': I(1)},
                          'id': self.new_id()})
        elif c < 0.96:
            tp = {'kind': 'call', 'actor': 'mp', 'op': 'm:transpose', 'args': [obj], 'id': self.new_id()}
            steps.append(tp)
            self.mats.append({'id': tp['id'], 'n': n})
        else:
            cp = {'kind': 'call', 'actor': 'mp', 'op': 'm:copy', 'args': [obj], 'id': self.new_id()}
            steps.append(cp)
            self.mats.append({'id': cp['id'], 'n': n})

    # -- memoized user functions ------------------------------------------------------
    def memo_steps(self, steps):
        r = self.rng
        if self.memo is None:
            mk = {'kind': 'call', 'actor': 'mp', 'op': 'f:memoize',
                  'args': [catalogue.CB(r.choice(['gammaf', 'zetaf', 'kwf', 'expneg', 'tuplef', 'matf', 'listf', 'matf']), r.randint(1, 3), 2)],
                  'id': self.new_id()}
            steps.append(mk)
            self.memo = {'mk': mk, 'xs': [catalogue.real_spec(r, -2, 3, sign=0, cfg={'nostr': True, 'maxwidth': 64}) for _ in range(2)]}
            return
        if r.random() < 0.5:
            steps.append(self.setprec('mp', pick_prec(r, 400)))
        x = r.choice(self.memo['xs'])
        st = {'kind': 'call', 'actor': 'mp', 'op': 'call:', 'args': [{'t': 'obj', 'i': self.memo['mk']['id']}, json.loads(json.dumps(x))],
              'id': self.new_id(), 'key': 'memoized_call', 'judge': True, 'tol': 8, 'exact': False, 'rel': 'hist', 'group': 'memoize',
              'ref_setup': [json.loads(json.dumps(self.memo['mk']))]}
        if self.memo['mk']['args'][0]['name'] == 'kwf' and r.random() < 0.5:
            st['kwargs'] = {'c': I(r.randint(0, 2))}
        # a memoized call aborted while the wrapped function runs (the user's function raises, or Ctrl-C lands
        # inside the wrapper), then - what a user does - the same call again, and further calls later
        u1, u2, u3 = r.random(), r.random(), r.random()
        if self.memo.get('calls') and u1 < max(self.fault_rate, 0.2) and self.nfault < 3:
            if u2 < 0.6:
                st['fault'] = {'kind': 'F1', 'u': u3, 'slot': 0, 'act': 'raise', 'shim_of': self.memo['mk']['id']}
            else:
                st['fault'] = {'kind': 'F3', 'u': u3, 'placement': self.placement}
            self.nfault += 1
        self.memo['calls'] = self.memo.get('calls', 0) + 1
        steps.append(st)
        if 'fault' not in st and self.memo['mk']['args'][0]['name'] in ('matf', 'listf') and r.random() < 0.5:
            # the caller edits the object it was handed (its own, it may think) and asks again
            key = {'t': 'tuple', 'v': [I(0), I(0)]} if self.memo['mk']['args'][0]['name'] == 'matf' else I(0)
            steps.append({'kind': 'call', 'actor': 'mp', 'op': 'setitem:', 'id': self.new_id(),
                          'args': [{'t': 'obj', 'i': st['id']}, key, {'t': 'frac', 'v': [r.randint(-60, 60), 2]}]})
            again = json.loads(json.dumps(st))
            again['id'] = self.new_id()
            again['rel'] = 'equal'
            steps.append(again)
        if 'fault' in st:
            steps.append({'kind': 'reassert', 'id': self.new_id()})
            retry = json.loads(json.dumps(st))
            retry.pop('fault', None)
            retry['id'] = self.new_id()
            retry['rel'] = 'retry'
            steps.append(retry)
