"""C10 - rounded operations never return more bits than the working precision.

"Working precision" is a variable with a history: operands wider than the
current precision exist only because precision was lowered after they were
made; cached results wider than the current precision exist because an earlier
call ran higher or because the cache-filling call and the cache-hit call take
different exits.  The machine searches over precision histories with a value
pool; the oracle is the mantissa bit length of every returned number.
Fault-free branch only (a precision left raised by an aborted call is C11's).
"""
import json
from simkit import codec, env
from simkit.world import World
from simkit.model import PrecModel, dps_to_prec
from simkit import minimise as _min
from machines import common
from machines.common import pick_prec
from ops import catalogue

# catalogue keys of functions created by _wrap_libmp_function: they document and parse prec= / dps= / rounding=
KW_FUNCS = frozenset(['sqrt', 'cbrt', 'ln', 'atan', 'exp', 'expj', 'expjpi', 'sin', 'cos', 'tan', 'sinh', 'cosh', 'tanh', 'asin', 'acos',
                      'asinh', 'acosh', 'atanh', 'sinpi', 'cospi', 'floor', 'ceil', 'nint', 'frac', 'fib', 'gamma', 'rgamma',
                      'loggamma', 'factorial', 'ei', 'e1', 'ellipk', 'gamma_big', 'gamma_int', 'factorial_int', 'fib_int'])
# (digamma / harmonic are libmp-wrapped too but are known findings for their width already)

class Machine(object):
    PROP = 'C10'
    DEFAULT_SEED = 1001
    RUNS = {'quick': 2500, 'thorough': 60000}
    WALL = {'quick': 150, 'thorough': 1500}
    MIN_WALL = 60
    BUDGET = {'quick': 150000, 'thorough': 400000}
    RUN_TIMEOUT = 120

    def setup(self, tier, workers, replay=False):
        self.tier = tier

    def generate(self, rng, tier):
        return _Gen(self, rng, tier).program()

    def run(self, prog, mode=None):
        budget = prog.get('config', {}).get('budget', self.BUDGET['quick'])
        def child(prog, survey, survey_in):
            w = World(budget=budget)
            w.seed_base = str(prog.get('seed', 0)).encode()
            ex = common.Exec(w, 'C10')
            ex.check_fn = _check
            ex.max_viol = 8
            ex.cases = set()
            ex.checked = 0
            ex.entries = set()
            ex.rare = {}
            ex.run(prog['steps'])
            st = {'world': w.stats, 'cases': ex.cases, 'entries': ex.entries, 'numbers_checked': ex.checked,
                  'rare': ex.rare, 'interleavings': {_sig(prog)}}
            return {'violations': ex.viol, 'stats': st, 'digest': w.digest(), 'program': prog}
        return common.run_two_pass(prog, child, self.RUN_TIMEOUT, mode=mode)

    def simplify(self, prog):
        return _min.generic_simplify(prog)

    def sample_view(self, prog):
        from machines.c11 import _brief
        return {'seed': prog.get('seed'), 'config': prog.get('config'), 'steps': [_brief(s) for s in prog.get('steps', [])][:40]}

    def evidence(self, agg, tier):
        w = agg.get('world', {})
        covered = set(e.op for e in catalogue.CAT if e.c10 and 'mp' in e.ctxs)
        ent = agg.get('entries', set())
        cov = {
            'distinct_nontrivial': len(agg.get('cases', set())),
            'rule': ('a case is one simulated precision history (<= 40 steps: precision assignments in staircase / excursion / '
                     'random-walk patterns, covered calls with operands from a pool of literals 1..1200 bits wide and of earlier '
                     'results, repeated calls); non-trivial+distinct = distinct (entry point, operand-wider-than-precision?, '
                     'keyword-precision?, first-or-repeated call, precision bucket) tuples for which at least one returned '
                     'number had its mantissa length compared with the precision in force'),
            'numbers_checked': agg.get('numbers_checked', 0),
            'steps_executed': w.get('steps', 0),
            'step_clock_py_start_events': w.get('starts', 0),
            'natural_exceptions': w.get('raised_nat', 0),
            'budget_faults_F6': w.get('budget', 0),
            'covered_entry_points_in_catalogue': len(covered),
            'covered_entry_points_exercised': len(ent & covered),
            'covered_entry_points_never_returned_a_number': sorted(covered - ent),
            'distinct_histories': len(agg.get('interleavings', set())),
            'rare_conditions': agg.get('rare', {}),
            'faults_injected': 'none (fault-free branch only, by design: a precision left raised by an aborted call is C11\'s finding)',
            'real_vs_stub': {'real': ['all of mpmath from the working tree', 'CPython 3.12'], 'stub': ['precision reference model']},
            'not_covered_by_exemption': 'ldexp, frexp, mpmathify/convert, exact=True / prec=inf, re/im/conj/.real/.imag, chop, sign',
        }
        return {'coverage': cov, 'assumptions': [
            'the catalogue flag c10 marks exactly the operations the property covers',
            'bit patterns are sampled by the pool, not targeted: the pure input-space facet of C10 is not decided here']}


def _sig(prog):
    return ' '.join((s.get('kind', '?')[0] + (str(s['value'].get('v')) if s.get('kind') == 'setprec' else s.get('key', ''))) for s in prog.get('steps', []))[:300]

def _maxwidth(spec):
    """widest mantissa among mpf/mpc literals of an argument spec"""
    t = spec.get('t')
    if t == 'mpf':
        return int(spec['v'][1], 16).bit_length()
    if t == 'mpc':
        return max(int(spec['v'][0][1], 16).bit_length(), int(spec['v'][1][1], 16).bit_length())
    if t in ('list', 'tuple'):
        return max([_maxwidth(s) for s in spec['v']] or [0])
    return 0

def _kind(spec):
    t = spec.get('t')
    if t in ('mpf', 'float', 'str', 'frac', 'mpq', 'int', 'mpmathobj'):      # (a user number type converts to a real mpf)
        return 'real' if t != 'int' else 'int'
    if t in ('mpc', 'complex'):
        return 'cplx'
    if t == 'const':
        return 'const'
    return t or '?'

def _check(ex, step, rec, where):
    if step.get('kind') != 'call' or rec is None or rec.get('status') != 'ok' or not step.get('c10'):
        return
    res = rec.get('_res')
    actor = step.get('actor', 'mp')
    kw = step.get('kwargs') or {}
    limit = ex.model.get(actor)[0]
    kwprec = False
    try:
        if 'dps' in kw and kw['dps'].get('t') == 'int':
            limit = dps_to_prec(int(kw['dps']['v'])); kwprec = True
        elif 'prec' in kw and kw['prec'].get('t') == 'int':
            limit = int(kw['prec']['v']); kwprec = True
    except Exception:
        return
    enc = codec.encode(res)
    nums = codec.numbers_in(enc)
    if not nums:
        return
    ex.events += 1
    entry = step.get('op')
    ex.entries.add(entry)
    wide = max([_maxwidth(a) for a in step.get('args', [])] or [0]) > limit
    ex.cases.add((step.get('key', entry), wide, kwprec, bool(step.get('repeat')), limit.bit_length()))
    if wide:
        ex.rare['operand_wider_than_precision'] = ex.rare.get('operand_wider_than_precision', 0) + 1
    if step.get('repeat'):
        ex.rare['repeated_call'] = ex.rare.get('repeated_call', 0) + 1
    if kwprec:
        ex.rare['keyword_precision'] = ex.rare.get('keyword_precision', 0) + 1
    worst = 0
    for n in nums:
        ex.checked += 1
        b = codec.mpf_bits(n)
        if b > worst:
            worst = b
    if worst > limit:
        # entry = operation + kinds of the (concretised) operands, so that e.g.
        # "mpc + real" and "mpf + mpf" are different findings
        sig = entry
        if not entry.startswith('f:') or entry in ('f:fadd', 'f:fsub', 'f:fmul', 'f:fdiv'):
            sig = entry + '[' + ','.join(_kind(a) for a in step.get('args', [])) + ']'
        parts = 'n/a'
        if enc[0] == 'mpc':
            rw, iw = codec.mpf_bits(enc[1]) > limit, codec.mpf_bits(enc[2]) > limit
            parts = 'both' if (rw and iw) else ('re' if rw else 'im')
        elif enc[0] == 'mpf':
            parts = 'real-result'
        ex.violation('width', sig, step,
                     {'actor': actor, 'precision_in_force': limit, 'wide_parts': parts, 'keyword_precision': kwprec, 'mantissa_bits': worst,
                      'op': entry, 'repeat': bool(step.get('repeat')), 'result': codec.short(enc, 200)})


class _Gen(object):
    def __init__(self, m, rng, tier):
        self.rng = rng
        self.tier = tier
        self.nid = 0
        self.gm = PrecModel()
        r = rng
        self.pattern = r.choice(['staircase', 'excursion', 'walk', 'walk', 'low'])
        self.maxcost = 2 if (tier == 'quick' and r.random() < 0.85) else 3
        self.fams = r.choice(['ABL', 'ABCL', 'ABCDEFGHL', 'CDEFGH', 'ABCDEFGHL'])
        self.nsteps = r.randint(8, 36)
        self.ref_rate = r.choice([0.0, 0.2, 0.5])
        self.kw_rate = r.choice([0.0, 0.3, 0.6])
        self.cfg = {'pattern': self.pattern, 'families': self.fams, 'budget': m.BUDGET[tier], 'ref_rate': self.ref_rate}
        self.cfgw = {'maxwidth': r.choice([None, None, 400, 64])}
        self.calls = []

    def new_id(self):
        self.nid += 1
        return self.nid

    def setprec(self, p):
        s = {'kind': 'setprec', 'actor': 'mp', 'value': {'t': 'int', 'v': int(p)}, 'id': self.new_id()}
        self.gm.set_prec('mp', p)
        return s

    def next_prec(self):
        r = self.rng
        cur = self.gm.get('mp')[0]
        pat = self.pattern
        if pat == 'staircase':
            return max(1, int(cur * r.choice([0.3, 0.5, 0.7, 0.9])) - r.randint(0, 3))
        if pat == 'excursion':
            return r.choice([cur * 3 + 17, max(1, cur // 3), 53, pick_prec(r, 1200)])
        if pat == 'low':
            return r.choice([1, 2, 3, 4, 5, 8, 11, 24, 53, 64, r.randint(1, 64)])
        return r.choice([1, 2, 53, 64, pick_prec(r, 1200), pick_prec(r, 1200), pick_prec(r, 400)])

    def program(self):
        r = self.rng
        steps = []
        start = r.choice([1200, 800, 400, 200, 53]) if self.pattern == 'staircase' else pick_prec(r, 1200)
        steps.append(self.setprec(start))
        ents = [e for e in catalogue.entries(ctx='mp', c10=True, maxcost=self.maxcost) if e.fam in self.fams]
        while len(steps) < self.nsteps:
            c = r.random()
            if c < 0.25:
                steps.append(self.setprec(min(1200, max(1, self.next_prec()))))
                continue
            e = r.choice(ents)
            cur = self.gm.get('mp')[0]
            if cur > e.maxprec:
                steps.append(self.setprec(pick_prec(r, e.maxprec)))
            st = e.gen(r, self.cfgw, actor='mp')
            st['id'] = self.new_id()
            st['c10'] = True
            if 'kwargs' in st and r.random() >= self.kw_rate:
                # keyword precisions only in some runs (and never 'exact')
                for k in ('prec', 'dps', 'rounding'):
                    st['kwargs'].pop(k, None)
                if not st['kwargs']:
                    del st['kwargs']
            # keyword precision / rounding on the elementary functions (every branch must honour them:
            # real result, complex argument, real argument promoted to a complex result, special values)
            if e.key in KW_FUNCS and r.random() < self.kw_rate:
                kw = st.setdefault('kwargs', {})
                c = r.random()
                if c < 0.6:
                    kw['prec'] = {'t': 'int', 'v': r.choice([1, 2, 5, 20, 24, 30, 53, 64, r.randint(1, 300)])}
                elif c < 0.8:
                    kw['dps'] = {'t': 'int', 'v': r.randint(1, 60)}
                if r.random() < 0.4:
                    kw['rounding'] = {'t': 'str', 'v': r.choice('nfcdu')}
            if 'kwargs' in st and 'prec' in st['kwargs'] and 'dps' in st['kwargs']:
                del st['kwargs']['dps']      # which of the two wins is not specified by the property
            # operands that are results of earlier steps
            if self.calls and self.ref_rate:
                for i, a in enumerate(st['args']):
                    if a.get('t') in ('mpf', 'mpc') and r.random() < self.ref_rate:
                        st['args'][i] = {'t': 'ref', 'i': r.choice(self.calls), 'fb': a}
            steps.append(st)
            self.calls.append(st['id'])
            c2 = r.random()
            if c2 < 0.15:
                rp = json.loads(json.dumps(st)); rp['id'] = self.new_id(); rp['repeat'] = 1
                steps.append(rp)
            elif c2 < 0.35:
                # excursion: the same call at a higher precision (fills whatever cache there is), then
                # back at the original precision - a cached wider value must not come back unrounded
                back = self.gm.get('mp')[0]
                steps.append(self.setprec(min(e.maxprec, back * 2 + 30)))
                rp = json.loads(json.dumps(st)); rp['id'] = self.new_id(); rp['repeat'] = 1
                steps.append(rp)
                steps.append(self.setprec(back))
                rp = json.loads(json.dumps(st)); rp['id'] = self.new_id(); rp['repeat'] = 2
                steps.append(rp)
        return {'config': self.cfg, 'steps': steps}
