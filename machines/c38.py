"""C38 - contexts are isolated from each other.

Search space: interleavings of several contexts' programs (mp, clones c1/c2,
iv, fp), each with its own precision schedule, settings steps and clone
creation at arbitrary points; re-entrant interleavings through callbacks that
run a step of another context (F4); a second branch with faults (F1/F2) in one
actor's steps.  Oracle: (i) every other actor's (prec, dps, pretty,
trap_complex) equals its model after every step; (ii) values are of the calling
context's own number types; (iii) each actor's results equal its solo
projection run alone in the pristine state; (iv) a clone computes what a
pristine mp computes at the same precision.
"""
import json
from simkit import codec, compare, isolate
from simkit.world import World
from simkit import minimise as _min
from machines import common, refs
from machines.common import pick_prec
from ops import catalogue
from ops.catalogue import I

# functions backed by ctx-level / module-level caches and by the _mp/_fp/_iv cross references
SHARED = ['nsum', 'nsum_alt', 'nsum_geom', 'nsum_fin', 'nsum_levin', 'nsum_geom_levin', 'nsum_levin', 'diff', 'diff_n', 'taylor', 'findroot', 'findroot_solver', 'limit', 'quadts',
          'quad_lor', 'chebyfit', 'polyroots', 'sumem', 'nprod', 'pade', 'jacobian', 'quad_method',
          'zeta_rs_hi', 'siegelz_hi', 'zeta_rs_hi', 'coulombf', 'coulombg', 'coulombc', 'airyai', 'airybi', 'airyaizero', 'besseljzero', 'besselyzero', 'zeta_rs', 'siegelz',
          'zetazero', 'stieltjes', 'quad', 'quadgl', 'hyp2f1', 'hyp1f1', 'besselj', 'zeta', 'zeta_int', 'bernoulli', 'gamma', 'const_pi',
          'const_euler', 'exp', 'ln', 'sin', 'atan', 'erf', 'ellipk', 'lambertw', 'polylog', 'grampoint', 'siegeltheta', 'nzeros',
          'riemannr', 'primezeta', 'secondzeta', 'backlunds', 'psi', 'factorial', 'loggamma', 'fib', 'det', 'inverse', 'lu_solve', 'expm',
          # the routines that reach into another context through ctx._iv / ctx._fp / ctx._mp, weighted
          'primepi2', 'primepi2', 'primepi2', 'zetazero', 'nzeros', 'zeta_rs_hi', 'siegelz_hi',
          # accelerator / rule objects created per call (re-entered from a callback in another context), weighted
          'nsum_levin', 'nsum_levin', 'nsum_levin', 'nsum_geom_levin', 'nsum_geom_levin', 'quad_method', 'quad_method']
EXCLUDE = frozenset(['rand', 'randmatrix'])
# primepi2 returns an interval of the iv context by specification (its result depends on iv.prec: see DESIGN): it is
# executed - it is the one mixin routine that reaches into another context - but its result is not compared
NOJUDGE = frozenset(['primepi2'])

_SOLO = {}

class Machine(object):
    PROP = 'C38'
    DEFAULT_SEED = 3801
    RUNS = {'quick': 1200, 'thorough': 20000}
    WALL = {'quick': 150, 'thorough': 1500}
    MIN_WALL = 120
    BUDGET = {'quick': 300000, 'thorough': 1000000}
    RUN_TIMEOUT = 300

    def setup(self, tier, workers, replay=False):
        self.tier = tier

    def generate(self, rng, tier):
        return _Gen(self, rng, tier).program()

    def run(self, prog, mode=None):
        budget = prog.get('config', {}).get('budget', self.BUDGET['quick'])
        seed_base = str(prog.get('seed', 0)).encode()
        def child(prog, survey, survey_in):
            return _execute(prog, budget, seed_base, survey, survey_in)
        def judge(res):
            _judge(res, mode, budget, seed_base)
        return common.run_two_pass(prog, child, self.RUN_TIMEOUT, mode=mode, judge=judge)

    def simplify(self, prog):
        for cand in _min.generic_simplify(prog):
            ok = True
            for a, b in zip(prog['steps'], cand['steps']):
                if a.get('kind') == 'call' and a.get('args') != b.get('args'):
                    ok = False
            if ok:
                yield cand

    def sample_view(self, prog):
        from machines.c11 import _brief
        return {'seed': prog.get('seed'), 'config': prog.get('config'), 'steps': [_brief(s) for s in prog.get('steps', [])][:40]}

    def evidence(self, agg, tier):
        w = agg.get('world', {})
        j = agg.get('judge', {})
        cov = {
            'distinct_nontrivial': len(agg.get('pairs', set())),
            'rule': ('a case is one simulated interleaving of 2-5 contexts\' programs (<= 40 steps in all); non-trivial+distinct = '
                     'distinct adjacent cross-actor pairs (actor kind A: op family -> actor kind B: entry point) after which B\'s '
                     'settings were compared with the model and B\'s result with its solo projection'),
            'distinct_interleavings': len(agg.get('interleavings', set())),
            'settings_checks': agg.get('settings_checks', 0),
            'type_checks': agg.get('type_checks', 0),
            'results_compared_with_solo_projection': j.get('solo_judged', 0),
            'results_bit_identical_to_solo': j.get('identical', 0),
            'results_within_rounding_level': j.get('within', 0),
            'results_inadmissible_skipped': j.get('inadmissible', 0),
            'clone_results_compared_with_pristine_mp': j.get('clone_judged', 0),
            'solo_projection_runs': j.get('solo_runs', 0),
            'exact_mismatch_count_informational': j.get('within', 0),
            'steps_executed': w.get('steps', 0),
            'step_clock_py_start_events': w.get('starts', 0),
            'faults_fired_by_kind': w.get('fired', {}),
            'rare_conditions': agg.get('rare', {}),
            'real_vs_stub': {'real': ['all of mpmath from the working tree (mp, clones, iv, fp)'],
                             'stub': ['user callbacks', 'settings/precision model', 'solo projections in the pristine state']},
        }
        return {'coverage': cov, 'assumptions': [
            'clone() copies the parent precision at the moment of the call: specified dependency, modelled, not a leak',
            'primepi2 returns an interval of the iv context by specification: it is executed (settings of every context are checked after it) but its value is not compared',
            'one context\'s numbers as arguments of another context\'s functions are judged (the function must compute with them as with its own); '
            'binary operators are not: there the left operand\'s context rules by design']}


def _allowed_types(enc, actor, bad):
    """(ii) every number in a result belongs to the calling context"""
    k = enc[0]
    if k in ('mpf', 'mpc'):
        tag = enc[-1]
        if actor in ('fp', 'iv') or tag != actor:
            bad.append((k, tag))
    elif k in ('ivmpf', 'ivmpc'):
        if actor != 'iv':
            bad.append((k, 'iv'))
    elif k in ('list', 'tuple'):
        for v in enc[1]:
            _allowed_types(v, actor, bad)
    elif k == 'matrix':
        for v in enc[3]:
            _allowed_types(v, actor, bad)

def _execute(prog, budget, seed_base, survey, survey_in, solo=None):
    w = World(budget=budget, survey=survey, survey_in=survey_in)
    w.seed_base = seed_base
    ex = common.Exec(w, 'C38')
    ex.records = []
    ex.rare = {}
    ex.pairs = set()
    ex.settings_checks = 0
    ex.type_checks = 0
    ex.last = None
    ex.faulted_actors = {}
    def hook(world, event, nested, rec):
        if event == 'nested':
            ex.rare['callback_reentered_another_context'] = ex.rare.get('callback_reentered_another_context', 0) + 1
            ex.records.append({'actor': nested.get('actor', 'mp'), 'id': nested.get('id'), 'status': rec.get('status'),
                               'value': rec.get('result') if rec.get('status') == 'ok' else rec.get('exc'), 'nested': True,
                               'prec': nested.get('workprec'), 'key': nested.get('key'), 'tol': nested.get('tol', 8), 'exact': False,
                               'fired': False})
    w.hook = hook
    ex.check_fn = _check
    ex.run(prog['steps'])
    st = {'world': w.stats, 'rare': ex.rare, 'pairs': ex.pairs, 'settings_checks': ex.settings_checks, 'type_checks': ex.type_checks,
          'interleavings': {' '.join((s.get('actor') or '?')[:2] + ':' + (s.get('kind') or '?')[0] for s in prog['steps'])[:400]},
          'passes': {'fault_free' if survey_in is None else 'faulted': 1}}
    return {'violations': ex.viol, 'stats': st, 'digest': w.digest(), 'program': prog, 'survey': survey, 'records': ex.records,
            'faulted_actors': ex.faulted_actors}

def _check(ex, step, rec, where):
    w = ex.w
    actor = step.get('actor', 'mp')
    # (i) settings of every actor equal the model (in particular: of every *other* actor)
    for name in list(w.actors):
        ctx = w.actors[name]
        got = (ctx.prec, ctx.dps)
        exp = ex.model.get(name)
        ex.settings_checks += 1
        if got != exp:
            ex.violation('settings-changed' if name != actor else 'own-precision-changed', step.get('key') or step.get('op') or step.get('kind'), step,
                         {'victim': name, 'step_actor': actor, 'got': list(got), 'expected': list(exp), 'fired': rec.get('fired') if rec else None})
            ex.resync(name)
        smodel = ex.settings.get(name, {})
        for attr in ('pretty', 'trap_complex'):
            if not hasattr(ctx, attr):
                continue
            want = smodel.get(attr, False)
            if bool(getattr(ctx, attr)) != bool(want):
                ex.violation('settings-changed', step.get('key') or step.get('op') or step.get('kind'), step,
                             {'victim': name, 'step_actor': actor, 'attribute': attr, 'got': bool(getattr(ctx, attr)), 'expected': bool(want)})
                setattr(ctx, attr, want)
    if rec is None or step.get('kind') not in ('call', 'nestedstep'):
        return
    # a re-entrant visit of another context (F4) is an interleaving, not a fault: the step's own
    # result stays subject to every oracle
    is_fault = bool(rec.get('fired')) and rec['fired'].get('kind') != 'F4'
    if is_fault:
        ex.faulted_actors.setdefault(actor, step.get('id'))
        if rec.get('status') == 'faulted':
            for name in list(w.actors):
                ex.resync(name)
    key = step.get('key') or step.get('op')
    if ex.last is not None and ex.last[0] != actor:
        ex.pairs.add((ex.last[0][:1], ex.last[1], actor[:1], key))
    ex.last = (actor, step.get('fam', '?'))
    r = {'actor': actor, 'id': step.get('id'), 'status': rec.get('status'), 'fired': is_fault, 'key': key,
         'prec': ex.model.get(actor)[0], 'tol': step.get('tol', 8), 'exact': bool(step.get('exact')),
         'trap': bool(ex.settings.get(actor, {}).get('trap_complex', False)),
         'pretty': bool(ex.settings.get(actor, {}).get('pretty', False))}
    if rec.get('status') == 'ok' or (rec.get('status') == 'absorbed' and not is_fault):
        enc = codec.encode(rec.get('_res'))
        r['value'] = enc
        bad = []
        if step.get('typed', True) and not is_fault:
            ex.type_checks += 1
            _allowed_types(enc, actor, bad)
            if bad:
                ex.violation('foreign-number-type', key, step, {'actor': actor, 'foreign': bad[:3], 'value': codec.short(enc, 200),
                                                                  'foreign_operand': _foreign_kind(step)})
    elif rec.get('status') in ('raised', 'faulted'):
        r['value'] = rec.get('exc')
    else:
        return
    if step.get('nojudge'):
        return                      # settings of every context were checked above; the value is not compared
    ex.records.append(r)

def _foreign_kind(step):
    """'number' / 'container' / None: does the step hand this context an operand owned by another one?"""
    from simkit.world import _walk_specs
    kind = None
    for sp in _walk_specs(step or {}):
        if 'owner' in sp:
            kind = 'container' if sp.get('t') in ('list', 'tuple', 'matrix') else (kind or 'number')
    return kind

def _strip_owner(step):
    """the same step with every operand owned by the step's own actor (reference runs)"""
    from simkit.world import _walk_specs
    for sp in _walk_specs(step):
        if 'owner' in sp:
            sp.pop('owner', None)
    return step

def _solo_program(prog, actor):
    """actor's projection: its own steps in order; a clone starts with 'create,
    then set the inherited precision' (recorded by the model at clone time)."""
    out = []
    for s in prog['steps']:
        a = s.get('actor')
        if s.get('kind') == 'clone' and a == actor:
            out.append({'kind': 'clone', 'actor': actor, 'parent': 'mp', 'id': s.get('id')})
            out.append({'kind': 'setprec', 'actor': actor, 'value': I(s.get('inherited_prec', 53))})
            continue
        if a == actor and s.get('kind') in ('setprec', 'setdps', 'setting', 'call', 'default'):
            s2 = json.loads(json.dumps(s))
            s2.pop('fault', None)
            from simkit.world import _walk_specs
            if s2.get('kind') == 'call':
                # alone means alone: the callback does not visit the other context in the solo run
                # (a re-entrant visit that changes this actor's result is exactly what is looked for)
                for sp in _walk_specs(s2):
                    if sp.get('t') == 'cb':
                        sp.pop('shim', None)
                _strip_owner(s2)     # alone, every operand is the actor's own number of the same value
            out.append(s2)
        # a step of another actor whose callback ran a nested step on `actor`
        f = s.get('fault')
        if f and f.get('kind') == 'F4' and a != actor and f.get('step', {}).get('actor') == actor and f.get('did_fire'):
            n = f['step']
            out.append({'kind': 'nestedstep', 'actor': actor, 'workprec': n.get('workprec', 53), 'step': n, 'id': n.get('id')})
    return out

def _mp_replay_of(prog, actor, step_id, budget, seed_base, mode):
    """value of step `step_id` when the pristine mp itself runs the clone's projection (clone creation replaced by
    'mp takes the inherited precision'); None if it cannot be had"""
    sp = []
    for s in _solo_program(prog, actor):
        if s.get('kind') == 'clone':
            continue
        s2 = json.loads(json.dumps(s)); s2['actor'] = 'mp'
        if s2.get('kind') == 'nestedstep':
            return None
        sp.append(s2)
    def fn():
        rr = _execute({'steps': sp}, (budget or 300000) * 3, seed_base, None, None)
        for x in rr['records']:
            if x.get('id') == step_id and x['actor'] == 'mp':
                return x
        return None
    st, val = isolate.call(fn, timeout=300, mode=mode)
    if st != 'ok' or not val or 'value' not in val:
        return None
    return val['value']

def _solo_values(prog, actor, budget, seed_base, mode):
    sp = _solo_program(prog, actor)
    key = json.dumps([actor, sp], sort_keys=True)
    if key in _SOLO:
        return _SOLO[key]
    def fn():
        r = _execute({'steps': sp}, (budget or 300000) * 3, seed_base, None, None)
        return dict((x['id'], x) for x in r['records'] if x['actor'] == actor)
    st, val = isolate.call(fn, timeout=300, mode=mode)
    _SOLO[key] = val if st == 'ok' else None
    if len(_SOLO) > 3000:
        _SOLO.clear()
    return _SOLO.get(key)

def _judge(res, mode, budget, seed_base):
    viol = res.setdefault('violations', [])
    st = res.setdefault('stats', {})
    j = st.setdefault('judge', {})
    def bump(k, n=1):
        j[k] = j.get(k, 0) + n
    prog = res.get('program') or {}
    recs = res.get('records', [])
    faulted = res.get('faulted_actors', {})
    # mark which F4 faults actually fired (their nested step belongs to the target's projection)
    fired_nested = set(r['id'] for r in recs if r.get('nested'))
    for s in prog.get('steps', []):
        f = s.get('fault')
        if f and f.get('kind') == 'F4':
            f['did_fire'] = f.get('step', {}).get('id') in fired_nested
    actors = []
    for r in recs:
        if r['actor'] not in actors:
            actors.append(r['actor'])
    steps_by_id = dict((s.get('id'), s) for s in prog.get('steps', []))
    for actor in actors:
        solo = _solo_values(prog, actor, budget, seed_base, mode)
        bump('solo_runs')
        if solo is None:
            continue
        cut = faulted.get(actor)
        for r in recs:
            if r['actor'] != actor or r.get('fired'):
                continue
            if cut is not None and r['id'] is not None and r['id'] >= cut:
                continue           # after a fault inside this actor its own later results are not compared
            s = solo.get(r['id'])
            if s is None:
                continue
            h, f = r['value'], s['value']
            if h and h[0] == 'exc' and h[1] in ('SimBudget',):
                continue
            step = steps_by_id.get(r['id']) or {}
            p = r['prec'] if actor != 'fp' else 53
            t = max(r.get('tol') or 8, 8 if actor == 'fp' else 0) or 8
            def get_R():
                if actor == 'fp' or not step or step.get('kind') != 'call':
                    return None
                return refs.pristine_eval(_strip_owner(json.loads(json.dumps(step))), 2 * p + 64, mode=mode, seed_base=seed_base)
            verdict, detail = compare.compare(h, f, get_R, p, max(t, 12) if actor == 'fp' else t, r.get('exact', False), direct=(actor == 'fp'))
            bump('solo_judged'); bump(verdict)
            if verdict == 'violation':
                d = {'actor': actor, 'key': r.get('key'), 'prec': p, 'nested': bool(r.get('nested')), 'foreign_operand': _foreign_kind(step)}
                d.update(detail or {})
                viol.append({'property': 'C38', 'check': 'differs-from-solo-projection', 'entry': r.get('key'), 'step': r['id'], 'detail': d})
    # (iv) a clone computes what a pristine mp computes at the same precision
    for r in recs:
        if not r['actor'].startswith('c') or r.get('fired') or r.get('nested'):
            continue
        step = steps_by_id.get(r['id'])
        if not step or step.get('kind') != 'call' or not step.get('clone_vs_mp'):
            continue
        s2 = _strip_owner(json.loads(json.dumps(step))); s2['actor'] = 'mp'
        # the reference mp gets the clone's own settings (trap_complex changes outcomes by specification)
        setup = [{'kind': 'setting', 'actor': 'mp', 'name': n, 'value': True} for n, on in (('trap_complex', r.get('trap')), ('pretty', r.get('pretty'))) if on] or None
        f = refs.pristine_eval(s2, r['prec'], mode=mode, seed_base=seed_base, setup=setup)
        if f is None:
            continue
        h = r['value']
        if h and h[0] == 'exc' and h[1] in ('SimBudget',):
            continue
        def get_R2():
            return refs.pristine_eval(s2, 2 * r['prec'] + 64, mode=mode, seed_base=seed_base, setup=setup)
        verdict, detail = compare.compare(h, f, get_R2, r['prec'], max(r.get('tol') or 8, 4), r.get('exact', False))
        bump('clone_judged')
        if verdict == 'violation':
            # second opinion before reporting: the difference may come from the clone's *own* earlier calls (a memo
            # filled before its trap_complex was switched on lets a later call return where a fresh context raises) -
            # that is history dependence (C33's subject), not a difference between a clone and mp.  mp replays the
            # clone's projection (same steps, same settings, alone in the pristine state); if it then agrees with the
            # clone, nothing is reported.
            mp_same_history = _mp_replay_of(prog, r['actor'], r['id'], budget, seed_base, mode)
            if mp_same_history is not None:
                v2, _d2 = compare.compare(h, mp_same_history, get_R2, r['prec'], max(r.get('tol') or 8, 4), r.get('exact', False))
                if v2 != 'violation':
                    bump('clone_differences_explained_by_own_history')
                    continue
            d = {'actor': r['actor'], 'key': r.get('key'), 'prec': r['prec'], 'foreign_operand': _foreign_kind(step)}
            d.update(detail or {})
            viol.append({'property': 'C38', 'check': 'clone-differs-from-mp', 'entry': r.get('key'), 'step': r['id'], 'detail': d})
    res.pop('records', None)
    res.pop('faulted_actors', None)


class _Gen(object):
    def __init__(self, m, rng, tier):
        self.rng = r = rng
        self.tier = tier
        self.nid = 0
        pool = ['c1', 'c2', 'iv', 'fp']
        self.actors = ['mp'] + r.sample(pool, r.choice([1, 1, 2, 3, 4]))
        self.pattern = r.choice(['roundrobin', 'bursts', 'sandwich', 'random'])
        self.fault_rate = r.choice([0.0, 0.0, 0.0, 0.2])
        self.f4_rate = r.choice([0.0, 0.3, 0.6])
        self.f2_exc = r.choice(['SimFault', 'ZeroDivisionError', 'ValueError'])
        self.maxcost = 2 if r.random() < (0.75 if tier == 'quick' else 0.5) else 3
        self.nsteps = r.randint(8, 36)
        self.shared_bias = r.choice([0.4, 0.8])
        self.cfg = {'actors': self.actors, 'pattern': self.pattern, 'fault_rate': self.fault_rate, 'f4_rate': self.f4_rate,
                    'budget': m.BUDGET[tier]}
        self.cfgw = {'maxwidth': 200}
        self.cur = {'mp': 53, 'iv': 53, 'fp': 53}
        self.created = set(['mp', 'iv', 'fp'])
        self.nfault = 0
        self.used = {}
        self.seen_precs = [53]
        self.foreign_rate = r.choice([0.0, 0.0, 0.25, 0.5])

    def new_id(self):
        self.nid += 1
        return self.nid

    def schedule(self):
        r = self.rng
        acts = self.actors
        out = []
        if self.pattern == 'roundrobin':
            while len(out) < self.nsteps:
                out.extend(acts)
        elif self.pattern == 'bursts':
            while len(out) < self.nsteps:
                out.extend([r.choice(acts)] * r.randint(1, 5))
        elif self.pattern == 'sandwich':
            a = acts[0]; b = r.choice(acts[1:])
            while len(out) < self.nsteps:
                out.extend([b, a, b])
                if r.random() < 0.3:
                    out.append(r.choice(acts))
        else:
            out = [r.choice(acts) for _ in range(self.nsteps)]
        return out[:self.nsteps]

    def entries_for(self, actor):
        kind = 'mp' if actor in ('mp', 'c1', 'c2') else actor
        ents = [e for e in catalogue.entries(ctx=kind, maxcost=self.maxcost) if e.key not in EXCLUDE]
        if self.rng.random() < self.shared_bias:
            allowed = dict((e.key, e) for e in ents)
            sh = [allowed[k] for k in SHARED if k in allowed]      # repeated keys in SHARED weigh more
            if sh:
                return sh
        return ents

    def program(self):
        r = self.rng
        steps = []
        for actor in self.schedule():
            if actor not in self.created:
                steps.append({'kind': 'clone', 'actor': actor, 'parent': 'mp', 'id': self.new_id(), 'inherited_prec': self.cur['mp']})
                self.created.add(actor)
                self.cur[actor] = self.cur['mp']
                if self.cur['mp'] != 53:
                    pass
                continue
            c = r.random()
            if c < 0.22 and actor != 'fp':
                p = pick_prec(r, 600)
                if r.random() < 0.35:
                    # collide on purpose: a precision another context has now or had earlier
                    # (tables keyed by precision alone are shared exactly then; fp is always 53)
                    p = r.choice(self.seen_precs)
                self.seen_precs.append(p)
                if r.random() < 0.8:
                    steps.append({'kind': 'setprec', 'actor': actor, 'value': I(p), 'id': self.new_id()})
                    self.cur[actor] = p
                else:
                    d = max(1, p // 4)
                    steps.append({'kind': 'setdps', 'actor': actor, 'value': I(d), 'id': self.new_id()})
                    from simkit.model import dps_to_prec
                    self.cur[actor] = dps_to_prec(d)
                continue
            if c < 0.30:
                name = r.choice(['pretty', 'trap_complex']) if actor in ('mp', 'c1', 'c2') else 'pretty'
                steps.append({'kind': 'setting', 'actor': actor, 'name': name, 'value': r.random() < 0.6, 'id': self.new_id()})
                continue
            ents = self.entries_for(actor)
            e = r.choice(ents)
            if actor != 'fp' and self.cur[actor] > e.maxprec:
                p = pick_prec(r, e.maxprec)
                steps.append({'kind': 'setprec', 'actor': actor, 'value': I(p), 'id': self.new_id()})
                self.cur[actor] = p
            st = e.gen(r, self.cfgw, actor=actor)
            # the same arguments as an earlier call of any actor (module-level caches are keyed by arguments)
            prev = self.used.setdefault(e.key, [])
            if prev and r.random() < 0.5:
                old = r.choice(prev)
                st['args'] = json.loads(json.dumps(old.get('args', [])))
                if 'kwargs' in old:
                    st['kwargs'] = json.loads(json.dumps(old['kwargs']))
                else:
                    st.pop('kwargs', None)
            else:
                prev.append({'args': json.loads(json.dumps(st.get('args', []))), 'kwargs': json.loads(json.dumps(st['kwargs'])) if 'kwargs' in st else None} if 'kwargs' in st else {'args': json.loads(json.dumps(st.get('args', [])))})
            st['id'] = self.new_id()
            st['tol'] = e.tol or 2
            st['exact'] = bool(e.exact)
            st['fam'] = e.fam
            st['typed'] = e.ret in ('num', 'seq', 'matrix')
            if e.key in NOJUDGE:
                st['nojudge'] = True
            if actor in ('c1', 'c2'):
                st['clone_vs_mp'] = True
            # a number made by another mp-type context as an operand of a function of this one: the function
            # must compute with it as with its own number of that value (operators are excluded: there the
            # left operand's context rules by design)
            uf = r.random()
            donors = [a for a in ('mp', 'c1', 'c2') if a != actor and a in self.created]
            if uf < self.foreign_rate and actor in ('mp', 'c1', 'c2') and donors and st['op'].startswith('f:'):
                idx = [i for i, a in enumerate(st.get('args', [])) if a.get('t') in ('mpf', 'mpc')]
                if idx:
                    st['args'][r.choice(idx)]['owner'] = r.choice(donors)
                    st['foreign'] = True
            u1, u2, u3 = r.random(), r.random(), r.random()
            others = [a for a in self.actors if a != actor and a in self.created and a != 'fp']
            if e.cb and others and u1 < self.f4_rate:
                other = others[int(u2 * len(others))]
                kind2 = 'mp' if other in ('mp', 'c1', 'c2') else other
                if kind2 in e.ctxs and r.random() < 0.5:
                    # the same routine re-entered in another context while this one is in flight
                    ne = e
                    nested = ne.gen(r, self.cfgw, actor=other)
                    if 'kwargs' in st:
                        nested['kwargs'] = json.loads(json.dumps(st['kwargs']))
                    else:
                        nested.pop('kwargs', None)
                else:
                    ne = r.choice([x for x in catalogue.entries(ctx=kind2, maxcost=1, cb=False) if x.key not in EXCLUDE and x.fam in 'BCDEFGH'])
                    nested = ne.gen(r, self.cfgw, actor=other)
                nested['id'] = self.new_id()
                nested['workprec'] = pick_prec(r, min(300, ne.maxprec))
                nested['tol'] = ne.tol or 2
                st['fault'] = {'kind': 'F4', 'u': u3, 'slot': 0, 'act': 'nested', 'step': nested}
                st['f4'] = True
            elif u1 < self.fault_rate and self.nfault < 2:
                if e.cb and u2 < 0.5:
                    st['fault'] = {'kind': 'F1', 'u': u3, 'slot': 0, 'act': 'raise'}
                else:
                    st['fault'] = {'kind': 'F2', 'u': u3, 'exc': self.f2_exc}
                self.nfault += 1
            steps.append(st)
        self.container_conversions(steps)
        return {'config': self.cfg, 'steps': steps}

    def container_conversions(self, steps):
        """ctx.matrix(A) with A a matrix owned by another mp-type context (seeded change c38j: the entries must
        come out as the receiver's own numbers of the same values).  Drawn from a stream of its own, derived from
        the final state of the main one without drawing from it, so that the main stream is what it was before
        these steps existed."""
        import hashlib, random
        r2 = random.Random(int.from_bytes(hashlib.sha256(repr(self.rng.getstate()).encode()).digest()[:8], 'big'))
        mps = [a for a in ('mp', 'c1', 'c2') if a in self.created and a in self.actors]
        if len(mps) < 2 or r2.random() >= 0.4:
            return
        born = dict((s['actor'], i) for i, s in enumerate(steps) if s.get('kind') == 'clone')
        for _ in range(r2.randint(1, 3)):
            actor = r2.choice(mps)
            owner = r2.choice([a for a in mps if a != actor])
            n, m = r2.randint(1, 3), r2.randint(1, 3)
            rows = [[I(r2.randint(-9, 9)) if r2.random() < 0.5 else catalogue.mpf_spec(r2, -6, 6, maxwidth=200)
                     for _j in range(m)] for _i in range(n)]
            st = {'kind': 'call', 'actor': actor, 'op': 'f:matrix', 'key': 'matrix_from_matrix', 'fam': 'K', 'id': self.new_id(),
                  'args': [{'t': 'matrix', 'v': rows, 'owner': owner}], 'tol': 2, 'exact': True, 'typed': True, 'foreign': True}
            if actor in ('c1', 'c2'):
                st['clone_vs_mp'] = True
            lo = max(born.get(actor, -1), born.get(owner, -1)) + 1
            pos = r2.randint(lo, len(steps))
            steps.insert(pos, st)
            born = dict((s['actor'], i) for i, s in enumerate(steps) if s.get('kind') == 'clone')
