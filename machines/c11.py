"""C11 - working precision is restored after every call, normal or failing.

Search space: programs of public calls x crash points (callback raises F1,
internal primitive raises F2, generator/with abandonment F5) x starting
precisions.  Oracle: reference model of (prec, dps) per context after every
step, plus effective == reported precision.  Results are not judged.
"""
import random, json
from simkit import proc, codec, env
from simkit.world import World, _walk_specs
from simkit.model import PrecModel
from simkit import minimise as _min
from machines import common
from machines.common import pick_prec, pick_dps
from ops import catalogue, docscripts

F2_EXC = ['SimFault', 'ZeroDivisionError', 'ValueError', 'NoConvergence', 'OverflowError', 'MemoryError']

class Machine(object):
    PROP = 'C11'
    DEFAULT_SEED = 1101
    RUNS = {'quick': 3500, 'thorough': 60000}
    WALL = {'quick': 150, 'thorough': 1500}
    MIN_WALL = 90
    BUDGET = {'quick': 150000, 'thorough': 400000}
    RUN_TIMEOUT = 120

    def __init__(self):
        self.scripts = None
        self.bad = set()
        self.tier = 'quick'
        self.prescreen_stats = {}

    # ------------------------------------------------------------------ setup
    def setup(self, tier, workers, replay=False):
        self.tier = tier
        self.budget = self.BUDGET[tier]
        if replay:
            return
        self.scripts = docscripts.harvest(env.pkg_dir())
        self.bad, self.prescreen_stats = common.prescreen(self.scripts, self.budget // 2, workers)
        self.corpus = docscripts.corpus_digest(self.scripts)

    # --------------------------------------------------------------- generate
    def generate(self, rng, tier):
        g = _Gen(self, rng, tier)
        return g.program()

    # -------------------------------------------------------------------- run
    def run(self, prog, mode=None):
        budget = prog.get('config', {}).get('budget', self.BUDGET['quick'])
        def child(prog, survey, survey_in):
            w = World(budget=budget, survey=survey, survey_in=survey_in)
            w.seed_base = str(prog.get('seed', 0)).encode()
            ex = common.Exec(w, 'C11')
            ex.check_fn = _check
            ex.pairs = set()
            ex.entries = set()
            ex.faulted_entries = set()
            ex.rare = {}
            ex.run(prog['steps'])
            st = {'world': w.stats, 'pairs': ex.pairs, 'entries': ex.entries, 'faulted_entries': ex.faulted_entries,
                  'rare': ex.rare, 'runs_with_fault': 1 if sum(v for k, v in w.stats['fired'].items() if k != 'F6') else 0,
                  'interleavings': {_interleaving(prog)}, 'checks': ex.events,
                  'passes': {'fault_free' if survey_in is None else 'faulted': 1}}
            return {'violations': ex.viol, 'stats': st, 'digest': w.digest(), 'program': prog, 'survey': survey}
        if prog.get('config', {}).get('possweep') and common.has_unresolved_faults(prog):
            return self._pos_sweep(prog, child, mode)
        return common.run_two_pass(prog, child, self.RUN_TIMEOUT, mode=mode)

    POS_SWEEP = 32

    def _pos_sweep(self, prog, child, mode):
        """Crash-point enumeration for one operation: pass A counts the eligible
        library entries (and callback invocations) inside the faulted step; the program
        is then executed once per position on an even grid over them (at most
        POS_SWEEP primitive positions with rotating exception types, at most 12
        callback invocations), each from the pristine state."""
        import hashlib
        from simkit import isolate
        from simkit.driver import merge_stats
        pa = json.loads(json.dumps(prog))
        st, A = isolate.call(child, (pa, {}, None), timeout=self.RUN_TIMEOUT, mode=mode)
        if st == 'timeout':
            return {'status': 'inconclusive'}
        if st != 'ok':
            raise RuntimeError('run child (sweep pass A) crashed: %s' % (A,))
        if A.get('violations'):
            A['program'] = common.strip_all_faults(A.get('program') or pa)
            return A
        total = {}
        merge_stats(total, A.get('stats', {}))
        digests = [str(A.get('digest'))]
        fstep = [s for s in prog['steps'] if s.get('fault') and not s['fault'].get('resolved')][0]
        sv = (A.get('survey') or {}).get(fstep.get('id')) or {}
        n = sv.get('starts', 0)
        variants = []
        if n >= 1:
            K = min(self.POS_SWEEP, n)
            pos = sorted(set(1 + (i * (n - 1)) // max(1, K - 1) for i in range(K)))
            for i, k in enumerate(pos):
                variants.append({'kind': 'F2', 'k': k, 'n': n, 'exc': F2_EXC[i % len(F2_EXC)], 'resolved': True, 'placement': 'enumerated'})
        cb = (sv.get('cb') or [0])[0] if sv.get('cb') else 0
        if cb >= 1:
            K = min(12, cb)
            for k in sorted(set(1 + (i * (cb - 1)) // max(1, K - 1) for i in range(K))):
                variants.append({'kind': 'F1', 'k': k, 'n': cb, 'slot': 0, 'act': 'raise', 'resolved': True, 'placement': 'enumerated'})
        out = None
        done = 0
        for v in variants:
            pb = json.loads(json.dumps(prog))
            for s in pb['steps']:
                if s.get('id') == fstep.get('id'):
                    s['fault'] = v
            st, B = isolate.call(child, (pb, None, {}), timeout=self.RUN_TIMEOUT, mode=mode)
            if st != 'ok':
                continue
            done += 1
            merge_stats(total, B.get('stats', {}))
            digests.append(str(B.get('digest')))
            if B.get('violations'):
                out = B
                out['program'] = pb
                break
        total.setdefault('rare', {})['crash_points_enumerated'] = done
        res = out or {'violations': [], 'program': prog}
        res['stats'] = total
        res['digest'] = hashlib.sha256(''.join(digests).encode()).hexdigest()
        return res

    def simplify(self, prog):
        return _min.generic_simplify(prog)

    def sample_view(self, prog):
        return {'seed': prog.get('seed'), 'config': prog.get('config'),
                'steps': [_brief(s) for s in prog.get('steps', [])][:40]}

    # --------------------------------------------------------------- evidence
    def evidence(self, agg, tier):
        w = agg.get('world', {})
        pairs = agg.get('pairs', set())
        entries = agg.get('entries', set())
        fe = agg.get('faulted_entries', set())
        pub = set(e.op for e in catalogue.CAT)
        cov = {
            'distinct_nontrivial': len(pairs),
            'rule': ('a case is one simulated run (program of 8-30 public calls / doc statements / manager blocks / '
                     'generator protocols over mp, a clone, iv, fp with seeded faults); non-trivial+distinct = distinct '
                     '(entry point, fault site file:function) pairs in which an injected fault actually fired and the '
                     'precision model was evaluated afterwards'),
            'steps_executed': w.get('steps', 0),
            'step_clock_py_start_events': w.get('starts', 0),
            'faults_fired_by_kind': w.get('fired', {}),
            'faults_absorbed_by_library_except': w.get('absorbed', 0),
            'faults_planned_but_not_fired': w.get('notfired', 0),
            'dry_runs_for_fault_placement': w.get('dry_runs', 0),
            'natural_exceptions': w.get('raised_nat', 0),
            'budget_faults_F6': w.get('budget', 0),
            'runs_with_at_least_one_fired_fault': agg.get('runs_with_fault', 0),
            'model_checks_evaluated': agg.get('checks', 0),
            'distinct_entry_points_exercised': len(entries),
            'distinct_entry_points_with_fault_inside': len(fe),
            'catalogue_entry_points_never_faulted': sorted(pub - fe)[:200],
            'distinct_interleavings': len(agg.get('interleavings', set())),
            'rare_conditions': agg.get('rare', {}),
            'doc_corpus': {'scripts': len(self.scripts or []), 'statements': sum(len(s['stmts']) for s in self.scripts or []),
                           'digest': getattr(self, 'corpus', None), 'prescreen': self.prescreen_stats,
                           'statements_excluded': len(self.bad)},
            'real_vs_stub': {'real': ['all of mpmath from the working tree', 'CPython 3.12', 'random (pinned per step)'],
                             'stub': ['user callbacks (ops/callbacks.py)', 'precision reference model (simkit/model.py)']},
            'fault_kinds': 'F1 callback raises; F2 k-th eligible library function raises at entry; F5 generator closed/dropped, with-body raises; F6 step budget',
        }
        return {'coverage': cov, 'assumptions': [
            'faults inside the restore machinery itself (_set_prec/_set_dps/prec_to_dps/dps_to_prec/__exit__) are outside the property quantifier and are never injected',
            'the precision model (simkit/model.py) is a correct transcription of the documented conversion formulas',
            'sampling, not enumeration: a clean batch is evidence, not proof']}


def _brief(s):
    b = {'kind': s.get('kind'), 'actor': s.get('actor')}
    for k in ('op', 'mgr', 'arg', 'value', 'src', 'raise'):
        if k in s:
            b[k] = s[k]
    if 'args' in s:
        b['args'] = [codec.short(a, 70) for a in s['args']]
    if 'fault' in s:
        b['fault'] = s['fault']
    if 'body' in s:
        b['body'] = [_brief(x) for x in s['body']]
    return b

def _interleaving(prog):
    out = []
    def w(steps):
        for s in steps:
            out.append((s.get('actor', '?')[:2]) + ':' + s.get('kind', '?')[0] + ('!' if s.get('fault') else ''))
            if s.get('body'):
                out.append('('); w(s['body']); out.append(')')
    w(prog.get('steps', []))
    return ' '.join(out)

def _entry_of(step):
    if step is None:
        return '?'
    k = step.get('kind')
    if k in ('call', 'probe'):
        return step.get('op')
    if k == 'stmt':
        return 'doc:' + str(step.get('script'))
    if k == 'with':
        return 'with:' + step.get('mgr_kind', step.get('mgr', '?')) + ('@same-object' if step.get('mgr_obj') is not None else '')
    return k

def _check(ex, step, rec, where):
    """The C11 oracle: every actor's (prec, dps) equals the model; the
    effective precision agrees with the reported one."""
    ex.events += 1
    w = ex.w
    entry = _entry_of(step)
    if rec is not None and step.get('kind') in ('call', 'stmt'):
        ex.entries.add(entry)
        f = rec.get('fired')
        if f:
            ex.faulted_entries.add(entry)
            ex.pairs.add((entry, f.get('file', f.get('cb', '?')), f.get('func', f.get('kind'))))
            if rec.get('status') == 'absorbed':
                ex.rare['fault_absorbed'] = ex.rare.get('fault_absorbed', 0) + 1
    for name in list(w.actors):
        ctx = w.actors[name]
        got = (ctx.prec, ctx.dps)
        exp = ex.model.get(name)
        if got != exp:
            sa = step.get('actor', 'mp')
            ex.violation('prec-restore' if where in ('after', 'exit') else ('assign-formula' if where == 'assign' else 'manager-inner'),
                         entry, step,
                         {'actor': name, 'step_actor': sa, 'got': list(got), 'expected': list(exp), 'where': where,
                          'status': rec.get('status') if rec else None, 'fired': rec.get('fired') if rec else None,
                          'exc': rec.get('exc') if rec else None})
            ex.resync(name)
            continue
        if name != 'fp':
            eff = ex.effective_prec(name)
            want = exp[0]
            if eff != want:
                ex.violation('effective-prec', entry, step,
                             {'actor': name, 'reported': list(got), 'effective_bits': eff, 'where': where})
                ex.resync(name)
    if ex.model.get('mp')[0] not in _DPS_IMAGES:
        ex.rare['checks_at_non_dps_image_precision'] = ex.rare.get('checks_at_non_dps_image_precision', 0) + 1

_DPS_IMAGES = frozenset(max(1, int(round((d + 1) * 3.3219280948873626))) for d in range(0, 2000))


class _Gen(object):
    def __init__(self, m, rng, tier):
        self.m = m
        self.rng = rng
        self.tier = tier
        self.nid = 0
        self.gm = PrecModel()          # generator-side estimate of precision (to bound cost)
        r = rng
        self.actors = ['mp']
        if r.random() < 0.35:
            self.actors.append('c1')
        if r.random() < 0.35:
            self.actors.append('iv')
        if r.random() < 0.25:
            self.actors.append('fp')
        self.rate = r.choice([0.0, 0.15, 0.3, 0.5, 0.8])
        kinds = [k for k in ('F1', 'F2', 'F5') if r.random() < 0.75]
        self.kinds = kinds or ['F2']
        self.f2_exc = r.choice(F2_EXC)
        mix = {'cat': r.choice([1, 3, 6]), 'doc': r.choice([0, 1, 3, 6]) if m.scripts else 0, 'mgr': r.choice([0, 1, 3]),
               'gen': r.choice([0, 1, 2]), 'assign': r.choice([1, 2]), 'weird': r.choice([0, 0, 1]),
               'cbcat': r.choice([0, 2, 5])}
        self.mix = mix
        self.maxcost = 2 if tier == 'quick' and r.random() < 0.8 else 3
        self.prec_hi = r.choice([120, 400, 400, 1200])
        self.nsteps = r.randint(6, 28)
        self.cfg = {'actors': self.actors, 'fault_rate': self.rate, 'fault_kinds': self.kinds, 'f2_exc': self.f2_exc,
                    'mix': mix, 'prec_hi': self.prec_hi, 'budget': m.BUDGET[tier]}
        self.cfgw = {'maxwidth': r.choice([None, 53, 200])}

    def new_id(self):
        self.nid += 1
        return self.nid

    def sweep_program(self):
        """Catalogue sweep: ten consecutive catalogue entries (every entry, with its
        keyword variants, is reached ~30 times per quick batch) called on mp at a
        precision that is not the image of an integer dps, half of the sweeps with
        a fault in every other call."""
        r = self.rng
        actor = r.choice(['mp', 'mp', 'mp', 'mp', 'c1', 'iv', 'iv', 'fp'])
        kind = 'mp' if actor in ('mp', 'c1') else actor
        ents = [e for e in catalogue.CAT if kind in e.ctxs]
        start = r.randrange(len(ents))
        faulty = r.random() < 0.5
        self.rate = 0.5 if faulty else 0.0
        self.kinds = ['F1', 'F2']
        steps = []
        self.cfg['sweep'] = actor
        if actor == 'c1':
            steps.append({'kind': 'clone', 'actor': 'c1', 'parent': 'mp', 'id': self.new_id()})
            self.gm.clone('c1', 'mp')
        for k in range(10):
            e = ents[(start + k) % len(ents)]
            p = pick_prec(r, min(e.maxprec, 400))
            while p in _DPS_IMAGES:
                p += 1
            if actor != 'fp':
                s = {'kind': 'setprec', 'actor': actor, 'value': {'t': 'int', 'v': p}, 'id': self.new_id()}
                self._track(s)
                steps.append(s)
            st = e.gen(r, self.cfgw, actor=actor)
            st['id'] = self.new_id()
            self.maybe_fault(st, e.cb)
            steps.append(st)
        return {'config': self.cfg, 'steps': steps}

    def possweep_program(self):
        """one catalogue call at a non-image precision, to be aborted at every position of
        an even grid over its internal entries / callback invocations (Machine._pos_sweep)"""
        r = self.rng
        actor = r.choice(['mp', 'mp', 'mp', 'c1', 'iv'])
        kind = 'mp' if actor in ('mp', 'c1') else actor
        ents = [e for e in catalogue.CAT if kind in e.ctxs and e.cost <= 2]
        e = r.choice(ents)
        self.cfg['possweep'] = e.key
        steps = []
        if actor == 'c1':
            steps.append({'kind': 'clone', 'actor': 'c1', 'parent': 'mp', 'id': self.new_id()})
            self.gm.clone('c1', 'mp')
        p = pick_prec(r, min(e.maxprec, 300))
        while p in _DPS_IMAGES:
            p += 1
        s = {'kind': 'setprec', 'actor': actor, 'value': {'t': 'int', 'v': p}, 'id': self.new_id()}
        self._track(s)
        steps.append(s)
        st = e.gen(r, self.cfgw, actor=actor)
        st['id'] = self.new_id()
        st['fault'] = {'kind': 'F2', 'u': 0.0, 'exc': 'SimFault'}
        steps.append(st)
        return {'config': self.cfg, 'steps': steps}

    def program(self):
        r = self.rng
        c0 = r.random()
        if c0 < 0.25:
            return self.sweep_program()
        if c0 < 0.40:
            return self.possweep_program()
        steps = []
        created = set(['mp', 'iv', 'fp'])
        # starting precisions: ~70 % not the image of an integer dps
        for a in self.actors:
            if a == 'c1':
                continue
            if a != 'fp' and r.random() < 0.85:
                steps.append(self.assign(a))
        weights = self.mix
        kinds = [k for k in weights if weights[k] > 0]
        tot = [weights[k] for k in kinds]
        while len(steps) < self.nsteps:
            if 'c1' in self.actors and 'c1' not in created and r.random() < 0.3:
                steps.append({'kind': 'clone', 'actor': 'c1', 'parent': 'mp', 'id': self.new_id()})
                self.gm.clone('c1', 'mp')
                created.add('c1')
                continue
            k = r.choices(kinds, tot)[0]
            avail = [a for a in self.actors if a in created]
            if k == 'cat':
                steps.extend(self.cat_call(r.choice(avail)))
            elif k == 'cbcat':
                steps.extend(self.cat_call('mp' if r.random() < 0.7 else r.choice([a for a in avail if a in ('mp', 'c1')]), cb=True))
            elif k == 'doc':
                sc = r.choice(self.m.scripts)
                sl = common.doc_slice_steps(r, sc, self.m.bad, maxlen=8, prec_hi=min(self.prec_hi, 200))
                for s in sl:
                    s['id'] = self.new_id()
                    if s['kind'] == 'stmt' and not s.get('setup'):
                        self.maybe_fault(s, False)
                    if s['kind'] in ('setprec', 'setdps'):
                        self._track(s)
                steps.extend(sl)
            elif k == 'mgr':
                a = r.choice([x for x in avail if x != 'fp'])
                steps.append(self.with_block(a, 1))
            elif k == 'gen':
                steps.extend(self.gen_protocol(r.choice([x for x in avail if x in ('mp', 'c1')])))
            elif k == 'assign':
                steps.append(self.assign(r.choice(avail)))
            elif k == 'weird':
                a = r.choice(avail)
                steps.append({'kind': r.choice(['setprec', 'setdps']), 'actor': a, 'value': dict(r.choice(common.WEIRD_ASSIGN)), 'id': self.new_id()})
                self._track(steps[-1])
        return {'config': self.cfg, 'steps': steps}

    def _track(self, s):
        from simkit.model import spec_value, Invalid
        try:
            v = spec_value(s['value'])
            if s['kind'] == 'setprec':
                self.gm.set_prec(s['actor'], v)
            else:
                self.gm.set_dps(s['actor'], v)
        except Invalid:
            pass
        except KeyError:
            pass

    def assign(self, actor):
        r = self.rng
        if r.random() < 0.7:
            s = {'kind': 'setprec', 'actor': actor, 'value': {'t': 'int', 'v': pick_prec(r, self.prec_hi)}, 'id': self.new_id()}
        else:
            s = {'kind': 'setdps', 'actor': actor, 'value': {'t': 'int', 'v': pick_dps(r, max(2, self.prec_hi // 4))}, 'id': self.new_id()}
        self._track(s)
        return s

    def maybe_fault(self, step, has_cb):
        r = self.rng
        u = r.random(); u2 = r.random(); u3 = r.random()
        if u >= self.rate:
            return
        if has_cb and 'F1' in self.kinds and (u2 < 0.5 or 'F2' not in self.kinds):
            step['fault'] = {'kind': 'F1', 'u': u3, 'slot': 0, 'act': 'raise'}
        elif 'F2' in self.kinds:
            step['fault'] = {'kind': 'F2', 'u': u3, 'exc': self.f2_exc}

    def cat_call(self, actor, cb=None, nofault=False):
        r = self.rng
        kind = 'mp' if actor in ('mp', 'c1') else actor
        ents = catalogue.entries(ctx=kind, maxcost=self.maxcost, cb=cb)
        if not ents:
            ents = catalogue.entries(ctx=kind, maxcost=3)
        e = r.choice(ents)
        out = []
        if actor != 'fp':
            cur = self.gm.get(actor)[0] if actor in self.gm.m else 53
            if cur > e.maxprec:
                s = {'kind': 'setprec', 'actor': actor, 'value': {'t': 'int', 'v': pick_prec(r, e.maxprec)}, 'id': self.new_id()}
                self._track(s)
                out.append(s)
        st = e.gen(r, self.cfgw, actor=actor)
        st['id'] = self.new_id()
        if not nofault:
            self.maybe_fault(st, e.cb)
        out.append(st)
        return out

    def with_block(self, actor, depth, reuse=None):
        r = self.rng
        mgr = r.choice(common.MGR_NAMES)
        if mgr == 'workprec':
            arg = pick_prec(r, min(self.prec_hi, 600))
        elif mgr == 'workdps':
            arg = pick_dps(r, 120)
        elif mgr == 'extraprec':
            arg = r.randint(-40, 120)
        else:
            arg = r.randint(-10, 40)
        st = {'kind': 'with', 'actor': actor, 'mgr': mgr, 'arg': arg, 'id': self.new_id(), 'raise': r.random() < 0.25}
        saved = self.gm.get(actor)
        # estimate inner precision for cost control
        try:
            if mgr == 'workprec': self.gm.set_prec(actor, arg)
            elif mgr == 'workdps': self.gm.set_dps(actor, arg)
            elif mgr == 'extraprec': self.gm.set_prec(actor, saved[0] + arg)
            else: self.gm.set_dps(actor, saved[1] + arg)
        except Exception:
            pass
        same_obj = None
        if reuse is not None:
            st['mgr'] = reuse['mgr']; st['arg'] = reuse['arg']; st['mgr_obj'] = reuse['mgr_obj']; st['mgr_kind'] = reuse['mgr']
        elif r.random() < 0.2:
            st['mgr_obj'] = 'M%d' % st['id']; st['mgr_kind'] = mgr
            same_obj = {'mgr': mgr, 'arg': arg, 'mgr_obj': st['mgr_obj']}
        body = []
        for _ in range(r.randint(0, 3)):
            c = r.random()
            if c < 0.5:
                body.extend(self.cat_call(actor))
            elif c < 0.65:
                body.append(self.assign(actor))
            elif c < 0.9 and depth < 3:
                body.append(self.with_block(actor, depth + 1, reuse=same_obj if (same_obj and r.random() < 0.6) else None))
            else:
                body.extend(self.cat_call(actor, cb=True))
        st['body'] = body
        self.gm.restore(actor, saved)
        return st

    def gen_protocol(self, actor):
        """diffs / diffs_exp / diffs_prod generators advanced one next() per
        step with assignments in between, closed or dropped early (F5);
        odefun interpolants called across assignments."""
        r = self.rng
        out = []
        c = r.random()
        cur = self.gm.get(actor)[0]
        if cur > 300:
            s = {'kind': 'setprec', 'actor': actor, 'value': {'t': 'int', 'v': pick_prec(r, 300)}, 'id': self.new_id()}
            self._track(s); out.append(s)
        if c < 0.55:
            cbname = r.choice(['cosexp', 'expneg', 'poly', 'gammaf'])
            g = {'kind': 'call', 'actor': actor, 'op': 'f:diffs', 'id': self.new_id(),
                 'args': [catalogue.CB(cbname, r.randint(1, 3), r.randint(1, 3)), catalogue.real_spec(r, -2, 2, cfg={'nostr': True})]}
            kw = {}
            if r.random() < 0.3:
                g['args'].append(catalogue.I(r.randint(0, 6)))
            if r.random() < 0.2:
                kw['singular'] = catalogue.I(1)
            if r.random() < 0.2:
                kw['method'] = {'t': 'str', 'v': r.choice(['step', 'quad'])}
            if kw:
                g['kwargs'] = kw
            out.append(g)
            gid = g['id']
            if c < 0.15:
                g2 = {'kind': 'call', 'actor': actor, 'op': 'f:diffs_exp', 'id': self.new_id(), 'args': [{'t': 'obj', 'i': gid}]}
                out.append(g2); gid = g2['id']
            elif c < 0.3:
                gb = dict(g); gb = json.loads(json.dumps(g)); gb['id'] = self.new_id()
                out.append(gb)
                g2 = {'kind': 'call', 'actor': actor, 'op': 'f:diffs_prod', 'id': self.new_id(),
                      'args': [{'t': 'list', 'v': [{'t': 'obj', 'i': g['id']}, {'t': 'obj', 'i': gb['id']}]}]}
                out.append(g2); gid = g2['id']
            for _ in range(r.randint(1, 7)):
                if r.random() < 0.4:
                    s = {'kind': 'setprec', 'actor': actor, 'value': {'t': 'int', 'v': pick_prec(r, 300)}, 'id': self.new_id()}
                    self._track(s); out.append(s)
                nx = {'kind': 'call', 'actor': actor, 'op': 'next:', 'id': self.new_id(), 'args': [{'t': 'obj', 'i': gid}]}
                self.maybe_fault(nx, True)
                if nx.get('fault', {}).get('kind') == 'F1':
                    # the callback lives in the generator's creation step: address it by invocation count there
                    nx['fault'] = {'kind': 'F2', 'u': nx['fault']['u'], 'exc': self.f2_exc}
                out.append(nx)
            if 'F5' in self.kinds:
                if r.random() < 0.5:
                    out.append({'kind': 'call', 'actor': actor, 'op': 'close:', 'id': self.new_id(), 'args': [{'t': 'obj', 'i': gid}]})
                else:
                    out.append({'kind': 'drop', 'obj': gid, 'id': self.new_id()})
        elif c < 0.85 and actor not in ('iv', 'fp'):
            # callable objects made by the library around a user function, kept and called later at other
            # precisions: autoprec / memoize / maxcalls / diffun wrappers, the decorator form of the managers
            kind = r.choice(['autoprec', 'memoize', 'maxcalls', 'diffun', 'deco', 'deco'])
            cb = catalogue.CB(r.choice(['gammaf', 'cosexp', 'expneg', 'divf', 'zetaf']), r.randint(1, 3), r.randint(1, 3))
            if kind == 'deco':
                m = r.choice(['workprec', 'workdps', 'extraprec', 'extradps'])
                n = r.randint(1, 300) if m == 'workprec' else (r.randint(1, 90) if m == 'workdps' else r.randint(-15, 60))
                o = {'kind': 'call', 'actor': actor, 'op': 'mkdeco:' + m, 'id': self.new_id(), 'args': [catalogue.I(n), cb]}
                if r.random() < 0.5:
                    o['kwargs'] = {'normalize_output': catalogue.I(r.randint(0, 1))}
            elif kind == 'maxcalls':
                o = {'kind': 'call', 'actor': actor, 'op': 'f:maxcalls', 'id': self.new_id(), 'args': [cb, catalogue.I(r.randint(1, 4))]}
            elif kind == 'diffun':
                o = {'kind': 'call', 'actor': actor, 'op': 'f:diffun', 'id': self.new_id(), 'args': [cb, catalogue.I(r.randint(1, 3))]}
            else:
                o = {'kind': 'call', 'actor': actor, 'op': 'f:' + kind, 'id': self.new_id(), 'args': [cb]}
            out.append(o)
            for _ in range(r.randint(2, 5)):
                if r.random() < 0.6:
                    s = {'kind': 'setprec', 'actor': actor, 'value': {'t': 'int', 'v': pick_prec(r, 200)}, 'id': self.new_id()}
                    self._track(s); out.append(s)
                cl = {'kind': 'call', 'actor': actor, 'op': 'call:', 'id': self.new_id(),
                      'args': [{'t': 'obj', 'i': o['id']}, catalogue.real_spec(r, -2, 2, sign=0, cfg={'nostr': True})]}
                self.maybe_fault(cl, True)
                if cl.get('fault', {}).get('kind') == 'F1':
                    cl['fault']['shim_of'] = o['id']      # the user function was handed over when the wrapper was made
                out.append(cl)
        else:
            o = {'kind': 'call', 'actor': actor, 'op': 'f:odefun', 'id': self.new_id(),
                 'args': [catalogue.CB(r.choice(['ode_exp', 'ode_lin', 'ode_rat']), r.randint(1, 2)), catalogue.I(0), catalogue.I(1)]}
            out.append(o)
            for _ in range(r.randint(1, 5)):
                if r.random() < 0.5:
                    s = {'kind': 'setprec', 'actor': actor, 'value': {'t': 'int', 'v': pick_prec(r, 200)}, 'id': self.new_id()}
                    self._track(s); out.append(s)
                cl = {'kind': 'call', 'actor': actor, 'op': 'call:', 'id': self.new_id(),
                      'args': [{'t': 'obj', 'i': o['id']}, catalogue.real_spec(r, -3, 1, sign=0, cfg={'nostr': True})]}
                self.maybe_fault(cl, False)
                out.append(cl)
        return out
